import Bpmn.Model.Builder
/-! Helper lemmas for the layout half of C19 (core Lean only). -/
namespace Bpmn.Lemmas.BuilderLayout
open Bpmn.Model.Builder

/-! ### the free-row search -/

theorem countP_succ_le (occ : List Nat) (r : Nat) :
    occ.countP (fun x => decide (r + 1 ≤ x)) ≤ occ.countP (fun x => decide (r ≤ x)) := by
  induction occ with
  | nil => simp
  | cons x xs ih =>
    simp only [List.countP_cons]
    by_cases h1 : r + 1 ≤ x
    · have h2 : r ≤ x := by omega
      simp [h1, h2]; exact ih
    · by_cases h2 : r ≤ x <;> simp [h1, h2] <;> omega

theorem countP_succ_lt {occ : List Nat} {r : Nat} (h : r ∈ occ) :
    occ.countP (fun x => decide (r + 1 ≤ x)) < occ.countP (fun x => decide (r ≤ x)) := by
  induction occ with
  | nil => cases h
  | cons x xs ih =>
    simp only [List.countP_cons]
    rcases List.mem_cons.mp h with rfl | h'
    · have := countP_succ_le xs r
      have h1 : ¬ (r + 1 ≤ r) := by omega
      simp [h1]; omega
    · have := ih h'
      by_cases h1 : r + 1 ≤ x
      · have h2 : r ≤ x := by omega
        simp [h1, h2]; exact this
      · by_cases h2 : r ≤ x <;> simp [h1, h2] <;> omega

theorem firstFree_not_mem : ∀ (f r : Nat) (occ : List Nat),
    occ.countP (fun x => decide (r ≤ x)) < f → firstFree f r occ ∉ occ := by
  intro f
  induction f with
  | zero => intro r occ h; omega
  | succ f ih =>
    intro r occ h
    unfold firstFree
    by_cases hc : occ.contains r = true
    · simp only [hc, if_true]
      have hm : r ∈ occ := by simpa using hc
      exact ih (r + 1) occ (by have := countP_succ_lt hm; omega)
    · simp only [hc]
      simpa using hc

theorem firstFree_fresh (r : Nat) (occ : List Nat) : firstFree (occ.length + 1) r occ ∉ occ :=
  firstFree_not_mem _ r occ (by have := List.countP_le_length (p := fun x => decide (r ≤ x)) (l := occ); omega)

/-! ### maps -/

theorem rowOf_upd (m : Map Nat) (i j : Id) (v : Nat) :
    rowOf (upd m i v) j = if j = i then some v else rowOf m j := by
  unfold rowOf upd
  rw [List.lookup_cons]
  by_cases h : j = i
  · simp [h]
  · have : (j == i) = false := by simpa using h
    simp [this, h]

/-! ### one level -/

theorem placeLevel_spec (edges : List LEdge) : ∀ (l : List LNode) (rows : Map Nat) (occ : List Nat),
    (l.map (·.id)).Nodup →
    (∀ i, i ∉ l.map (·.id) → rowOf (placeLevel edges l rows occ) i = rowOf rows i) ∧
    (∀ a ∈ l, ∃ r, rowOf (placeLevel edges l rows occ) a.id = some r ∧ r ∉ occ) ∧
    (∀ a ∈ l, ∀ b ∈ l, a.id ≠ b.id →
      rowOf (placeLevel edges l rows occ) a.id ≠ rowOf (placeLevel edges l rows occ) b.id) := by
  intro l
  induction l with
  | nil => intro rows occ _; simp [placeLevel]
  | cons nd rest ih =>
    intro rows occ hnd
    simp only [List.map_cons, List.nodup_cons] at hnd
    let r := firstFree (occ.length + 1) (dRound (desired edges rows nd.id)) occ
    have hr : r ∉ occ := firstFree_fresh _ occ
    obtain ⟨h1, h2, h3⟩ := ih (upd rows nd.id r) (r :: occ) hnd.2
    have hhead : rowOf (placeLevel edges (nd :: rest) rows occ) nd.id = some r := by
      show rowOf (placeLevel edges rest (upd rows nd.id r) (r :: occ)) nd.id = some r
      rw [h1 nd.id hnd.1, rowOf_upd]; simp
    refine ⟨?_, ?_, ?_⟩
    · intro i hi
      simp only [List.map_cons, List.mem_cons, not_or] at hi
      show rowOf (placeLevel edges rest (upd rows nd.id r) (r :: occ)) i = rowOf rows i
      rw [h1 i hi.2, rowOf_upd]; simp [hi.1]
    · intro a ha
      rcases List.mem_cons.mp ha with rfl | ha'
      · exact ⟨r, hhead, hr⟩
      · obtain ⟨r', hr', hr''⟩ := h2 a ha'
        exact ⟨r', hr', fun h => hr'' (List.mem_cons_of_mem _ h)⟩
    · intro a ha b hb hab
      rcases List.mem_cons.mp ha with rfl | ha' <;> rcases List.mem_cons.mp hb with rfl | hb'
      · exact absurd rfl hab
      · obtain ⟨r', hr', hr''⟩ := h2 b hb'
        rw [hhead]
        show some r ≠ rowOf (placeLevel edges rest (upd rows a.id r) (r :: occ)) b.id
        rw [hr']; intro h; injection h with h; exact hr'' (h ▸ List.mem_cons_self)
      · obtain ⟨r', hr', hr''⟩ := h2 a ha'
        rw [hhead]
        show rowOf (placeLevel edges rest (upd rows b.id r) (r :: occ)) a.id ≠ some r
        rw [hr']; intro h; injection h with h; exact hr'' (h ▸ List.mem_cons_self)
      · exact h3 a ha' b hb' hab

/-! ### the sort is a permutation -/

theorem insertSorted_perm (lt : LNode → LNode → Bool) (x : LNode) (l : List LNode) :
    (insertSorted lt x l).Perm (x :: l) := by
  induction l with
  | nil => simp [insertSorted]
  | cons y ys ih =>
    unfold insertSorted
    split
    · exact List.Perm.refl _
    · exact (List.Perm.cons y ih).trans (List.Perm.swap x y ys)

theorem sortNodes_perm (lt : LNode → LNode → Bool) (l : List LNode) : (sortNodes lt l).Perm l := by
  induction l with
  | nil => simp [sortNodes]
  | cons x xs ih => exact (insertSorted_perm lt x _).trans (List.Perm.cons x ih)

/-! ### all levels -/

/-- rows assigned to the nodes of the levels below `L`: present, and distinct inside one level -/
def RowsOk (nodes : List LNode) (lv : Map Nat) (L : Nat) (rows : Map Nat) : Prop :=
  (∀ a ∈ nodes, lvOf lv a.id < L → ∃ r, rowOf rows a.id = some r) ∧
  (∀ a ∈ nodes, ∀ b ∈ nodes, a.id ≠ b.id → lvOf lv a.id = lvOf lv b.id → lvOf lv a.id < L →
    rowOf rows a.id ≠ rowOf rows b.id)

theorem rowsLoop_spec (nodes : List LNode) (lv : Map Nat) (edges : List LEdge)
    (hnd : (nodes.map (·.id)).Nodup) : ∀ (todo level : Nat) (rows : Map Nat),
    RowsOk nodes lv level rows → RowsOk nodes lv (level + todo) (rowsLoop nodes lv edges todo level rows) := by
  intro todo
  induction todo with
  | zero => intro level rows h; simpa [rowsLoop] using h
  | succ todo ih =>
    intro level rows h
    have hstep : RowsOk nodes lv (level + 1)
        (placeLevel edges (sortNodes (nodeLess edges rows) (nodes.filter (fun n => lvOf lv n.id = level))) rows []) := by
      have hperm := sortNodes_perm (nodeLess edges rows) (nodes.filter (fun n => lvOf lv n.id = level))
      have hsub : ((nodes.filter (fun n => decide (lvOf lv n.id = level))).map (·.id)).Nodup :=
        List.Nodup.sublist (List.Sublist.map _ List.filter_sublist) hnd
      have hnd' : ((sortNodes (nodeLess edges rows) (nodes.filter (fun n => lvOf lv n.id = level))).map (·.id)).Nodup :=
        (List.Perm.nodup_iff (List.Perm.map _ hperm)).mpr hsub
      obtain ⟨h1, h2, h3⟩ := placeLevel_spec edges _ rows [] hnd'
      have hmemS : ∀ a, a ∈ sortNodes (nodeLess edges rows) (nodes.filter (fun n => lvOf lv n.id = level)) ↔
          a ∈ nodes ∧ lvOf lv a.id = level := by
        intro a; rw [hperm.mem_iff]; simp
      have hother : ∀ a ∈ nodes, lvOf lv a.id ≠ level →
          a.id ∉ (sortNodes (nodeLess edges rows) (nodes.filter (fun n => lvOf lv n.id = level))).map (·.id) := by
        intro a _ hne hmem
        obtain ⟨c, hc, hid⟩ := List.mem_map.mp hmem
        have := ((hmemS c).mp hc).2
        rw [hid] at this
        exact hne this
      refine ⟨?_, ?_⟩
      · intro a ha hlt
        by_cases heq : lvOf lv a.id = level
        · obtain ⟨r, hr, _⟩ := h2 a ((hmemS a).mpr ⟨ha, heq⟩)
          exact ⟨r, hr⟩
        · rw [h1 _ (hother a ha heq)]
          exact h.1 a ha (by omega)
      · intro a ha b hb hab hlv hlt
        by_cases heq : lvOf lv a.id = level
        · exact h3 a ((hmemS a).mpr ⟨ha, heq⟩) b ((hmemS b).mpr ⟨hb, hlv ▸ heq⟩) hab
        · rw [h1 _ (hother a ha heq), h1 _ (hother b hb (hlv ▸ heq))]
          exact h.2 a ha b hb hab hlv (by omega)
    have := ih (level + 1) _ hstep
    rw [show level + (todo + 1) = level + 1 + todo by omega]
    exact this

theorem foldl_max_ge (f : LNode → Nat) : ∀ (l : List LNode) (m : Nat),
    m ≤ l.foldl (fun m n => max m (f n)) m ∧ ∀ a ∈ l, f a ≤ l.foldl (fun m n => max m (f n)) m := by
  intro l
  induction l with
  | nil => intro m; simp
  | cons x xs ih =>
    intro m
    obtain ⟨h1, h2⟩ := ih (max m (f x))
    simp only [List.foldl_cons]
    refine ⟨by omega, ?_⟩
    intro a ha
    rcases List.mem_cons.mp ha with rfl | ha'
    · omega
    · exact h2 a ha'

theorem le_maxLevel (nodes : List LNode) (lv : Map Nat) : ∀ a ∈ nodes, lvOf lv a.id ≤ maxLevel nodes lv :=
  (foldl_max_ge (fun n => lvOf lv n.id) nodes 0).2

/-- distinct nodes of one level get distinct rows, for ANY node list with unique ids and ANY edges -/
theorem computeRows_distinct (nodes : List LNode) (lv : Map Nat) (edges : List LEdge)
    (hnd : (nodes.map (·.id)).Nodup) :
    ∀ a ∈ nodes, ∀ b ∈ nodes, a.id ≠ b.id → lvOf lv a.id = lvOf lv b.id →
      (rowOf (computeRows nodes lv edges) a.id).getD 0 ≠ (rowOf (computeRows nodes lv edges) b.id).getD 0 := by
  have h0 : RowsOk nodes lv 0 [] := ⟨fun _ _ h => by omega, fun _ _ _ _ _ _ h => by omega⟩
  have h := rowsLoop_spec nodes lv edges hnd (maxLevel nodes lv + 1) 0 [] h0
  intro a ha b hb hab hlv
  have hla := le_maxLevel nodes lv a ha
  have hlb := le_maxLevel nodes lv b hb
  obtain ⟨ra, hra⟩ := h.1 a ha (by omega)
  obtain ⟨rb, hrb⟩ := h.1 b hb (by omega)
  have hne := h.2 a ha b hb hab hlv (by omega)
  unfold computeRows
  rw [hra, hrb] at hne ⊢
  simp only [Option.getD_some]
  intro heq; exact hne (by rw [heq])

end Bpmn.Lemmas.BuilderLayout

namespace Bpmn.Lemmas.BuilderLayout
open Bpmn.Model.Builder

/-! ### collected nodes: unique ids, bounded sizes -/

/-- largest node size (plain units): `flowNodeDefaultSize` never returns more -/
def maxW : Nat := 120
def maxH : Nat := 100

def SizeOk (scale : Nat) (m : LNode) : Prop :=
  0 ≤ m.w ∧ m.w ≤ ((maxW * scale : Nat) : Int) ∧ 0 ≤ m.h ∧ m.h ≤ ((maxH * scale : Nat) : Int)

theorem kind_size_le (k : Kind) : k.size.1 ≤ maxW ∧ k.size.2 ≤ maxH := by
  cases k <;> simp [Kind.size, maxW, maxH]

theorem sizeOk_mk (scale : Nat) (i : Id) (ord : Nat) (k : Kind) :
    SizeOk scale ⟨i, ord, (k.size.1 * scale : Nat), (k.size.2 * scale : Nat)⟩ := by
  have h := kind_size_le k
  have h1 : k.size.1 * scale ≤ maxW * scale := Nat.mul_le_mul_right _ h.1
  have h2 : k.size.2 * scale ≤ maxH * scale := Nat.mul_le_mul_right _ h.2
  refine ⟨Int.natCast_nonneg _, Int.ofNat_le.mpr h1, Int.natCast_nonneg _, Int.ofNat_le.mpr h2⟩

theorem collectNodesAux_spec (scale : Nat) : ∀ (l : List Node) (acc : List LNode),
    (acc.map (·.id)).Nodup → (∀ m ∈ acc, SizeOk scale m) →
    ((collectNodesAux scale l acc).map (·.id)).Nodup ∧ (∀ m ∈ collectNodesAux scale l acc, SizeOk scale m) := by
  intro l
  induction l with
  | nil => intro acc h1 h2; exact ⟨h1, h2⟩
  | cons n ns ih =>
    intro acc h1 h2
    unfold collectNodesAux
    by_cases hc : acc.any (fun m => decide (m.id = n.id)) = true
    · simp only [hc, if_true]; exact ih acc h1 h2
    · simp only [hc]
      apply ih
      · rw [List.map_append, List.nodup_append]
        refine ⟨h1, by simp, ?_⟩
        intro a ha b hb
        simp only [List.map_cons, List.map_nil, List.mem_singleton] at hb
        subst hb
        intro heq
        apply hc
        obtain ⟨m, hm, hid⟩ := List.mem_map.mp ha
        rw [List.any_eq_true]
        exact ⟨m, hm, by simp [hid, heq]⟩
      · intro m hm
        rcases List.mem_append.mp hm with hm | hm
        · exact h2 m hm
        · simp only [List.mem_singleton] at hm; subst hm; exact sizeOk_mk scale _ _ _

theorem collectNodes_spec (scale : Nat) (p : Proc) :
    ((collectNodes scale p).map (·.id)).Nodup ∧ ∀ m ∈ collectNodes scale p, SizeOk scale m :=
  collectNodesAux_spec scale _ [] (by simp) (by simp)

/-- with unique node ids nothing is dropped -/
theorem collectNodesAux_ids (scale : Nat) : ∀ (l : List Node) (acc : List LNode),
    (acc.map (·.id) ++ l.map (·.id)).Nodup →
    (collectNodesAux scale l acc).map (·.id) = acc.map (·.id) ++ l.map (·.id) := by
  intro l
  induction l with
  | nil => intro acc _; simp [collectNodesAux]
  | cons n ns ih =>
    intro acc h
    unfold collectNodesAux
    have hnot : ¬ (acc.any (fun m => decide (m.id = n.id)) = true) := by
      rw [List.any_eq_true]
      rintro ⟨m, hm, hid⟩
      rw [List.nodup_append] at h
      exact h.2.2 m.id (List.mem_map.mpr ⟨m, hm, rfl⟩) n.id (by simp) (by simpa using hid)
    rw [if_neg hnot, ih]
    · simp
    · simpa using h

/-! ### geometry -/

/-- the gaps are at least the node sizes -/
def GapsCover (cfg : Cfg) : Prop :=
  ((maxW * cfg.scale : Nat) : Int) ≤ cfg.cg ∧ ((maxH * cfg.scale : Nat) : Int) ≤ cfg.rg ∧
    ((maxH * cfg.scale : Nat) : Int) ≤ cfg.pg

theorem mul_step (a b : Nat) (c : Int) (hc : 0 ≤ c) (h : a < b) : (a : Int) * c + c ≤ (b : Int) * c := by
  have h1 : ((a : Int) + 1) * c ≤ (b : Int) * c :=
    Int.mul_le_mul_of_nonneg_right (by omega) hc
  rw [Int.add_mul] at h1
  omega

theorem disjoint_iff (a b : Shape) :
    disjoint a b = true ↔ (a.x + a.w ≤ b.x ∨ b.x + b.w ≤ a.x ∨ a.y + a.h ≤ b.y ∨ b.y + b.h ≤ a.y) := by
  simp only [disjoint, Bool.or_eq_true, decide_eq_true_eq, or_assoc]

/-- different cells, gaps at least the sizes ⇒ the two rectangles do not overlap -/
theorem position_disjoint (cfg : Cfg) (startY : Int) (lv rows : Map Nat) (a b : LNode)
    (ha : 0 ≤ a.w ∧ a.w ≤ cfg.cg ∧ 0 ≤ a.h ∧ a.h ≤ cfg.rg) (hb : 0 ≤ b.w ∧ b.w ≤ cfg.cg ∧ 0 ≤ b.h ∧ b.h ≤ cfg.rg)
    (hcell : lvOf lv a.id ≠ lvOf lv b.id ∨ (rowOf rows a.id).getD 0 ≠ (rowOf rows b.id).getD 0) :
    disjoint (position cfg startY lv rows a) (position cfg startY lv rows b) = true := by
  have hcg : 0 ≤ cfg.cg := by omega
  have hrg : 0 ≤ cfg.rg := by omega
  rw [disjoint_iff]
  simp only [position]
  rcases hcell with h | h
  · rcases Nat.lt_or_gt_of_ne h with h | h
    · have := mul_step _ _ cfg.cg hcg h; omega
    · have := mul_step _ _ cfg.cg hcg h; omega
  · rcases Nat.lt_or_gt_of_ne h with h | h
    · have := mul_step _ _ cfg.rg hrg h; omega
    · have := mul_step _ _ cfg.rg hrg h; omega

/-! ### shapes of one process -/

theorem nameShapes_spec (o : Nat → Nat) : ∀ (l : List Shape) (n : Nat),
    (nameShapes o n l).map (·.elem) = l.map (·.elem) ∧
    (∀ s ∈ nameShapes o n l, ∃ s' ∈ l, s.elem = s'.elem ∧ s.x = s'.x ∧ s.y = s'.y ∧ s.w = s'.w ∧ s.h = s'.h) ∧
    (∀ s' ∈ l, ∃ s ∈ nameShapes o n l, s.elem = s'.elem ∧ s.x = s'.x ∧ s.y = s'.y ∧ s.w = s'.w ∧ s.h = s'.h) := by
  intro l
  induction l with
  | nil => intro n; simp [nameShapes]
  | cons s ss ih =>
    intro n
    obtain ⟨h1, h2, h3⟩ := ih (n + 1)
    refine ⟨by simp [nameShapes, h1], ?_, ?_⟩
    · intro t ht
      simp only [nameShapes, List.mem_cons] at ht
      rcases ht with rfl | ht
      · exact ⟨s, by simp, rfl, rfl, rfl, rfl, rfl⟩
      · obtain ⟨s', hs', h⟩ := h2 t ht
        exact ⟨s', List.mem_cons_of_mem _ hs', h⟩
    · intro s' hs'
      rcases List.mem_cons.mp hs' with rfl | hs'
      · exact ⟨{ s' with id := Id.gen .shape (o n) }, by simp [nameShapes], rfl, rfl, rfl, rfl, rfl⟩
      · obtain ⟨t, ht, h⟩ := h3 s' hs'
        exact ⟨t, by simp [nameShapes, ht], h⟩

theorem foldl_bottom (_startY : Int) : ∀ (l : List Shape) (m : Int),
    m ≤ l.foldl (fun m s => if s.y + s.h > m then s.y + s.h else m) m ∧
    ∀ s ∈ l, s.y + s.h ≤ l.foldl (fun m s => if s.y + s.h > m then s.y + s.h else m) m := by
  intro l
  induction l with
  | nil => intro m; simp
  | cons x xs ih =>
    intro m
    simp only [List.foldl_cons]
    by_cases hx : x.y + x.h > m
    · obtain ⟨h1, h2⟩ := ih (x.y + x.h)
      rw [if_pos hx]
      refine ⟨by omega, ?_⟩
      intro s hs
      rcases List.mem_cons.mp hs with rfl | hs'
      · exact h1
      · exact h2 s hs'
    · obtain ⟨h1, h2⟩ := ih m
      rw [if_neg hx]
      refine ⟨h1, ?_⟩
      intro s hs
      rcases List.mem_cons.mp hs with rfl | hs'
      · omega
      · exact h2 s hs'

/-- the positioned nodes of a process (before the shapes get their ids) -/
def lpPos (cfg : Cfg) (startY : Int) (p : Proc) : List Shape :=
  (collectNodes cfg.scale p).map (position cfg startY (computeLevels (collectNodes cfg.scale p) (collectEdges p))
    (computeRows (collectNodes cfg.scale p) (computeLevels (collectNodes cfg.scale p) (collectEdges p)) (collectEdges p)))

def lpHeight (cfg : Cfg) (startY : Int) (p : Proc) : Int :=
  if (lpPos cfg startY p).foldl (fun m s => if s.y + s.h > m then s.y + s.h else m) startY - startY
      < minProcessHeight cfg.scale then minProcessHeight cfg.scale
  else (lpPos cfg startY p).foldl (fun m s => if s.y + s.h > m then s.y + s.h else m) startY - startY

theorem layoutProcess_eq (o : Nat → Nat) (n : Nat) (cfg : Cfg) (startY : Int) (p : Proc) :
    layoutProcess o n cfg startY p =
      if (collectNodes cfg.scale p).isEmpty then ([], [], minProcessHeight cfg.scale, n)
      else (nameShapes o n (lpPos cfg startY p),
        (buildEdges o cfg.scale (lpPos cfg startY p) (n + (collectNodes cfg.scale p).length) (collectEdges p)).1,
        lpHeight cfg startY p,
        (buildEdges o cfg.scale (lpPos cfg startY p) (n + (collectNodes cfg.scale p).length) (collectEdges p)).2) := by
  unfold layoutProcess lpHeight lpPos
  rfl

/-- what C19 needs of the shapes of ONE process, for any process whatsoever -/
theorem layoutProcess_shapes (o : Nat → Nat) (n : Nat) (cfg : Cfg) (startY : Int) (p : Proc) (hg : GapsCover cfg) :
    (∀ s ∈ (layoutProcess o n cfg startY p).1, ∀ t ∈ (layoutProcess o n cfg startY p).1,
        s.elem ≠ t.elem → disjoint s t = true) ∧
    (∀ s ∈ (layoutProcess o n cfg startY p).1,
        startY - ((maxH * cfg.scale : Nat) : Int) / 2 ≤ s.y ∧
        s.y + s.h ≤ startY + (layoutProcess o n cfg startY p).2.2.1) ∧
    0 ≤ (layoutProcess o n cfg startY p).2.2.1 := by
  obtain ⟨hnd, hsz⟩ := collectNodes_spec cfg.scale p
  rw [layoutProcess_eq]
  by_cases hemp : (collectNodes cfg.scale p).isEmpty = true
  · simp only [hemp, if_true]
    refine ⟨by simp, by simp, ?_⟩
    simp only [minProcessHeight]; omega
  · simp only [hemp]
    have hdist := computeRows_distinct (collectNodes cfg.scale p)
      (computeLevels (collectNodes cfg.scale p) (collectEdges p)) (collectEdges p) hnd
    obtain ⟨_, hn2, _⟩ := nameShapes_spec o (lpPos cfg startY p) n
    have hsz' : ∀ a ∈ collectNodes cfg.scale p, 0 ≤ a.w ∧ a.w ≤ cfg.cg ∧ 0 ≤ a.h ∧ a.h ≤ cfg.rg := by
      intro a ha
      obtain ⟨h1, h2, h3, h4⟩ := hsz a ha
      exact ⟨h1, Int.le_trans h2 hg.1, h3, Int.le_trans h4 hg.2.1⟩
    have hfold := foldl_bottom startY (lpPos cfg startY p) startY
    refine ⟨?_, ?_, ?_⟩
    · intro s hs t ht hne
      obtain ⟨s', hs', e1, e2, e3, e4, e5⟩ := hn2 s hs
      obtain ⟨t', ht', f1, f2, f3, f4, f5⟩ := hn2 t ht
      obtain ⟨a, ha, rfl⟩ := List.mem_map.mp hs'
      obtain ⟨b, hb, rfl⟩ := List.mem_map.mp ht'
      have hab : a.id ≠ b.id := by
        intro h; apply hne; rw [e1, f1]; exact h
      have hcell := (by
        by_cases hl : lvOf (computeLevels (collectNodes cfg.scale p) (collectEdges p)) a.id =
            lvOf (computeLevels (collectNodes cfg.scale p) (collectEdges p)) b.id
        · exact Or.inr (hdist a ha b hb hab hl)
        · exact Or.inl hl :
        lvOf (computeLevels (collectNodes cfg.scale p) (collectEdges p)) a.id ≠
          lvOf (computeLevels (collectNodes cfg.scale p) (collectEdges p)) b.id ∨ _)
      have := position_disjoint cfg startY _ _ a b (hsz' a ha) (hsz' b hb) hcell
      rw [disjoint_iff] at this ⊢
      rw [e2, e3, e4, e5, f2, f3, f4, f5]
      exact this
    · intro s hs
      obtain ⟨s', hs', _, e2, e3, e4, e5⟩ := hn2 s hs
      have hb := hfold.2 s' hs'
      obtain ⟨a, ha, rfl⟩ := List.mem_map.mp hs'
      obtain ⟨h1, h2, h3, h4⟩ := hsz a ha
      have hrg : 0 ≤ cfg.rg := by have := hg.2.1; omega
      have hrow : 0 ≤ (((rowOf (computeRows (collectNodes cfg.scale p)
          (computeLevels (collectNodes cfg.scale p) (collectEdges p)) (collectEdges p)) a.id).getD 0 : Nat) : Int) * cfg.rg :=
        Int.mul_nonneg (Int.natCast_nonneg _) hrg
      constructor
      · rw [e3]; simp only [position]; omega
      · rw [e3, e5]
        show _ ≤ startY + lpHeight cfg startY p
        unfold lpHeight
        split <;> omega
    · show 0 ≤ lpHeight cfg startY p
      unfold lpHeight
      have := hfold.1
      have hmin : 0 ≤ minProcessHeight cfg.scale := by simp only [minProcessHeight]; omega
      split <;> omega

end Bpmn.Lemmas.BuilderLayout

namespace Bpmn.Lemmas.BuilderLayout
open Bpmn.Model.Builder

/-! ### stacking of several processes -/

theorem pairwise_of_forall_mem {α : Type} {R : α → α → Prop} : ∀ (l : List α),
    (∀ a ∈ l, ∀ b ∈ l, R a b) → l.Pairwise R := by
  intro l
  induction l with
  | nil => intro _; exact List.Pairwise.nil
  | cons x xs ih =>
    intro h
    exact List.Pairwise.cons (fun b hb => h x (by simp) b (List.mem_cons_of_mem _ hb))
      (ih (fun a ha b hb => h a (List.mem_cons_of_mem _ ha) b (List.mem_cons_of_mem _ hb)))

theorem layoutAll_cons_shapes (o : Nat → Nat) (cfg : Cfg) (n : Nat) (y : Int) (p : Proc) (ps : List Proc) :
    (layoutAll o cfg n y (p :: ps)).1 = (layoutProcess o n cfg y p).1 ++
      (layoutAll o cfg (layoutProcess o n cfg y p).2.2.2 (y + (layoutProcess o n cfg y p).2.2.1 + cfg.pg) ps).1 := rfl

theorem layoutAll_cons_edges (o : Nat → Nat) (cfg : Cfg) (n : Nat) (y : Int) (p : Proc) (ps : List Proc) :
    (layoutAll o cfg n y (p :: ps)).2.1 = (layoutProcess o n cfg y p).2.1 ++
      (layoutAll o cfg (layoutProcess o n cfg y p).2.2.2 (y + (layoutProcess o n cfg y p).2.2.1 + cfg.pg) ps).2.1 := rfl

/-- no two shapes of the whole diagram overlap (shapes of one process: when they are of different nodes;
shapes of different processes: always), for ANY list of processes, when the gaps are at least the node sizes -/
theorem layoutAll_shapes (o : Nat → Nat) (cfg : Cfg) (hg : GapsCover cfg) : ∀ (procs : List Proc) (n : Nat) (y : Int),
    (∀ s ∈ (layoutAll o cfg n y procs).1, y - ((maxH * cfg.scale : Nat) : Int) / 2 ≤ s.y) ∧
    (layoutAll o cfg n y procs).1.Pairwise (fun s t => s.elem ≠ t.elem → disjoint s t = true) := by
  intro procs
  induction procs with
  | nil => intro n y; simp [layoutAll]
  | cons p ps ih =>
    intro n y
    obtain ⟨hd, hext, hh⟩ := layoutProcess_shapes o n cfg y p hg
    obtain ⟨ih1, ih2⟩ := ih (layoutProcess o n cfg y p).2.2.2 (y + (layoutProcess o n cfg y p).2.2.1 + cfg.pg)
    rw [layoutAll_cons_shapes]
    have hpg := hg.2.2
    constructor
    · intro s hs
      rcases List.mem_append.mp hs with hs | hs
      · exact (hext s hs).1
      · have := ih1 s hs; omega
    · rw [List.pairwise_append]
      refine ⟨pairwise_of_forall_mem _ hd, ih2, ?_⟩
      intro s hs t ht _
      rw [disjoint_iff]
      have h1 := (hext s hs).2
      have h2 := ih1 t ht
      right; right; left
      omega

/-! ### edges -/

theorem buildEdges_spec (o : Nat → Nat) (scale : Nat) (bounds : List Shape) : ∀ (edges : List LEdge) (n : Nat),
    (∀ e ∈ (buildEdges o scale bounds n edges).1, ∃ s ∈ bounds, ∃ t ∈ bounds,
        s.elem = e.src ∧ t.elem = e.tgt ∧ e.wps = waypoints scale s t) ∧
    ((∀ e ∈ edges, (∃ s ∈ bounds, s.elem = e.src) ∧ (∃ t ∈ bounds, t.elem = e.tgt)) →
        (buildEdges o scale bounds n edges).1.map (·.elem) = edges.map (·.id)) := by
  intro edges
  induction edges with
  | nil => intro n; simp [buildEdges]
  | cons e es ih =>
    intro n
    unfold buildEdges
    cases hs : bounds.find? (fun s => decide (s.elem = e.src)) with
    | none =>
      simp only
      refine ⟨(ih n).1, ?_⟩
      intro hall
      exfalso
      obtain ⟨s, hs', hse⟩ := (hall e (by simp)).1
      have := List.find?_eq_none.mp hs s hs'
      simp [hse] at this
    | some s =>
      cases ht : bounds.find? (fun s => decide (s.elem = e.tgt)) with
      | none =>
        simp only
        refine ⟨(ih n).1, ?_⟩
        intro hall
        exfalso
        obtain ⟨t, ht', hte⟩ := (hall e (by simp)).2
        have := List.find?_eq_none.mp ht t ht'
        simp [hte] at this
      | some t =>
        simp only
        have hs1 : s.elem = e.src := by simpa using List.find?_some hs
        have ht1 : t.elem = e.tgt := by simpa using List.find?_some ht
        refine ⟨?_, ?_⟩
        · intro e' he'
          rcases List.mem_cons.mp he' with rfl | he'
          · exact ⟨s, List.mem_of_find?_eq_some hs, t, List.mem_of_find?_eq_some ht, hs1, ht1, rfl⟩
          · exact (ih (n + 1)).1 e' he'
        · intro hall
          simp only [List.map_cons]
          rw [(ih (n + 1)).2 (fun e' he' => hall e' (List.mem_cons_of_mem _ he'))]

end Bpmn.Lemmas.BuilderLayout
