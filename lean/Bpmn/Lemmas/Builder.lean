import Bpmn.Model.Builder
/-! Helper lemmas for C19 (core Lean only). -/
namespace Bpmn.Lemmas.Builder
open Bpmn.Model.Builder

/-! ### flow element order is a permutation of the stored nodes -/

theorem insertByRank_perm (n : Node) (l : List Node) : (insertByRank n l).Perm (n :: l) := by
  induction l with
  | nil => simp [insertByRank]
  | cons m ms ih =>
    unfold insertByRank
    split
    · exact List.Perm.refl _
    · exact ((List.Perm.cons m ih).trans (List.Perm.swap n m ms))

theorem sortByRank_perm (l : List Node) : (sortByRank l).Perm l := by
  induction l with
  | nil => simp [sortByRank]
  | cons n ns ih => exact (insertByRank_perm n _).trans (List.Perm.cons n ih)

theorem mem_flowNodes (p : Proc) (n : Node) : n ∈ flowNodes p ↔ n ∈ p.nodes :=
  (sortByRank_perm p.nodes).mem_iff

/-! ### unique ids identify nodes -/

theorem eq_of_id_eq {l : List Node} (hnd : (l.map (·.id)).Nodup) {a b : Node}
    (ha : a ∈ l) (hb : b ∈ l) (h : a.id = b.id) : a = b := by
  induction l with
  | nil => cases ha
  | cons x xs ih =>
    simp only [List.map_cons, List.nodup_cons, List.mem_map, not_exists, not_and] at hnd
    rcases List.mem_cons.mp ha with rfl | ha' <;> rcases List.mem_cons.mp hb with rfl | hb'
    · rfl
    · exact absurd h.symm (hnd.1 b hb')
    · exact absurd h (hnd.1 a ha')
    · exact ih hnd.2 ha' hb'

theorem modifyFirst_eq_map (q : Node → Bool) (f : Node → Node) (id : Id) (l : List Node)
    (hq : ∀ n, q n = true → n.id = id) (hnd : (l.map (·.id)).Nodup) :
    modifyFirst q f l = l.map (fun n => if q n then f n else n) := by
  induction l with
  | nil => rfl
  | cons n ns ih =>
    simp only [List.map_cons, List.nodup_cons, List.mem_map, not_exists, not_and] at hnd
    unfold modifyFirst
    by_cases hn : q n = true
    · simp only [hn, if_true, List.map_cons]
      congr 1
      have : ∀ m ∈ ns, (if q m = true then f m else m) = m := by
        intro m hm
        have : ¬ q m = true := fun hqm => hnd.1 m hm ((hq m hqm).trans (hq n hn).symm)
        simp [this]
      rw [List.map_congr_left this, List.map_id']
    · simp only [hn, List.map_cons]
      rw [ih hnd.2]
      simp

/-- the copy `link` updates, when ids are unique: the node with the cursor's id, and only that one -/
def setOut (id : Id) (out : List Id) (n : Node) : Node := if n.id = id then { n with outgoing := out } else n

theorem setOutgoing_eq (p : Proc) (id : Id) (out : List Id)
    (hp : p.id ≠ id) (hf : ∀ f ∈ p.flows, f.id ≠ id) (hex : ∃ nd ∈ p.nodes, nd.id = id)
    (hnd : (p.nodes.map (·.id)).Nodup) :
    setOutgoing p id out = { p with nodes := p.nodes.map (setOut id out) } := by
  obtain ⟨nd, hmem, hid⟩ := hex
  unfold setOutgoing findNode
  simp only [hp, if_false]
  cases hfind : (flowNodes p).find? (fun n => decide (n.id = id)) with
  | none =>
    exfalso
    have := List.find?_eq_none.mp hfind nd ((mem_flowNodes p nd).mpr hmem)
    simp [hid] at this
  | some nd' =>
    have hid' : nd'.id = id := by simpa using List.find?_some hfind
    have hmem' : nd' ∈ p.nodes := (mem_flowNodes p nd').mp (List.mem_of_find?_eq_some hfind)
    have hany : p.flows.any (fun f => decide (f.id = id)) = false := by
      rw [List.any_eq_false]; intro f hf'; simpa using hf f hf'
    simp only [hany, Bool.false_and, Bool.false_eq_true, if_false]
    congr 1
    rw [modifyFirst_eq_map _ _ id _ (by intro n hn; simp at hn; exact hn.1) hnd]
    apply List.map_congr_left
    intro n hn
    unfold setOut
    by_cases h : n.id = id
    · have : n = nd' := eq_of_id_eq hnd hn hmem' (h.trans hid'.symm)
      simp [this]
    · simp [h]

theorem setOut_id (id : Id) (out : List Id) (n : Node) : (setOut id out n).id = n.id := by
  unfold setOut; split <;> rfl

theorem setOut_kind (id : Id) (out : List Id) (n : Node) : (setOut id out n).kind = n.kind := by
  unfold setOut; split <;> rfl

theorem setOut_incoming (id : Id) (out : List Id) (n : Node) : (setOut id out n).incoming = n.incoming := by
  unfold setOut; split <;> rfl

theorem map_setOut_ids (id : Id) (out : List Id) (l : List Node) :
    (l.map (setOut id out)).map (·.id) = l.map (·.id) := by
  rw [List.map_map]; apply List.map_congr_left; intro n _; exact setOut_id id out n

end Bpmn.Lemmas.Builder

namespace Bpmn.Lemmas.Builder
open Bpmn.Model.Builder

/-! ### the process builder invariant -/

/-- the id was produced by one of the `RandBytes` calls `lo … n-1`, or is one of the presets `ps` -/
def Below (o : Nat → Nat) (lo n : Nat) (ps : List Nat) (i : Id) : Prop :=
  (∃ p k, lo ≤ k ∧ k < n ∧ i = Id.gen p (o k)) ∨ (∃ m, m ∈ ps ∧ i = Id.preset m)

theorem Below.mono {o : Nat → Nat} {lo n n' : Nat} {ps ps' : List Nat} {i : Id}
    (h : Below o lo n ps i) (hn : n ≤ n') (hp : ∀ m ∈ ps, m ∈ ps') : Below o lo n' ps' i := by
  rcases h with ⟨p, k, hl, hk, rfl⟩ | ⟨m, hm, rfl⟩
  · exact Or.inl ⟨p, k, hl, by omega, rfl⟩
  · exact Or.inr ⟨m, hp m hm, rfl⟩

theorem fresh_gen {o : Nat → Nat} (hinj : ∀ a b, o a = o b → a = b) {lo n : Nat} {ps : List Nat} {L : List Id}
    (hL : ∀ i ∈ L, Below o lo n ps i) (p : Pfx) {k : Nat} (hk : n ≤ k) : Id.gen p (o k) ∉ L := by
  intro hmem
  rcases hL _ hmem with ⟨p', k', _, hk', heq⟩ | ⟨m, _, heq⟩
  · injection heq with _ h2
    have := hinj _ _ h2
    omega
  · cases heq

theorem fresh_preset {o : Nat → Nat} {lo n : Nat} {ps : List Nat} {L : List Id}
    (hL : ∀ i ∈ L, Below o lo n ps i) {m : Nat} (hm : m ∉ ps) : Id.preset m ∉ L := by
  intro hmem
  rcases hL _ hmem with ⟨p', k', _, _, heq⟩ | ⟨m', hm', heq⟩
  · cases heq
  · injection heq with h; exact hm (h ▸ hm')

structure PBCore (o : Nat → Nat) (lo n : Nat) (ps : List Nat) (b : PB) : Prop where
  lo_le : lo ≤ n
  nodup : b.proc.ids.Nodup
  below : ∀ i ∈ b.proc.ids, Below o lo n ps i
  flows : ∀ f ∈ b.proc.flows, (∃ s ∈ b.proc.nodes, s.id = f.src ∧ f.id ∈ s.outgoing) ∧
    (∃ t ∈ b.proc.nodes, t.id = f.tgt ∧ f.id ∈ t.incoming)
  ptrEx : ∃ nd ∈ b.proc.nodes, nd.id = b.ptrId
  ptrAll : ∀ nd ∈ b.proc.nodes, nd.id = b.ptrId → nd.outgoing = b.ptrOut
  startIn : ∀ nd ∈ b.proc.nodes, nd.kind = .startEvent → nd.incoming = []

/-- while activities are being added there is no end event yet -/
structure PBInv (o : Nat → Nat) (lo n : Nat) (ps : List Nat) (b : PB) : Prop extends PBCore o lo n ps b where
  noEnd : ∀ nd ∈ b.proc.nodes, nd.kind ≠ .endEvent

/-- `link` followed by storing the linked node (what `AddActivity` does for a stored type, and `Out` for the end) -/
def linkStore (o : Nat → Nat) (n : Nat) (b : PB) (id : Id) (kind : Kind) : PB :=
  let r := link o n b id kind
  { r.1 with proc := { r.1.proc with nodes := r.1.proc.nodes ++ [r.2.1] } }

theorem ids_unfold (p : Proc) : p.ids = p.id :: (p.nodes.map (·.id) ++ p.flows.map (·.id)) := rfl

/-- explicit form of `linkStore` on a state with unique ids -/
theorem linkStore_eq {o : Nat → Nat} {lo n : Nat} {ps : List Nat} {b : PB} (inv : PBCore o lo n ps b) (id : Id) (kind : Kind) :
    linkStore o n b id kind =
      { proc := { id := b.proc.id, executable := b.proc.executable,
                  nodes := b.proc.nodes.map (setOut b.ptrId (b.ptrOut ++ [Id.gen .flow (o n)])) ++
                    [⟨id, kind, [Id.gen .flow (o n)], []⟩],
                  flows := b.proc.flows ++ [⟨Id.gen .flow (o n), b.ptrId, id⟩] },
        ptrId := id, ptrOut := [] } := by
  obtain ⟨nd, hnd, hid⟩ := inv.ptrEx
  have hnd' := inv.nodup
  rw [ids_unfold, List.nodup_cons, List.nodup_append] at hnd'
  have hmemId : b.ptrId ∈ b.proc.nodes.map (·.id) := List.mem_map.mpr ⟨nd, hnd, hid⟩
  have h1 : b.proc.id ≠ b.ptrId := by
    intro h; exact hnd'.1 (by rw [h]; exact List.mem_append_left _ hmemId)
  have h2 : ∀ f ∈ b.proc.flows, f.id ≠ b.ptrId := by
    intro f hf h
    exact hnd'.2.2.2 _ hmemId _ (List.mem_map.mpr ⟨f, hf, rfl⟩) h.symm
  unfold linkStore link
  simp only [setOutgoing_eq b.proc b.ptrId _ h1 h2 ⟨nd, hnd, hid⟩ hnd'.2.1]

end Bpmn.Lemmas.Builder

namespace Bpmn.Lemmas.Builder
open Bpmn.Model.Builder

theorem linkStore_core {o : Nat → Nat} (hinj : ∀ a b, o a = o b → a = b) {lo n n' : Nat} {ps ps' : List Nat} {b : PB}
    (inv : PBCore o lo n ps b) (id : Id) (kind : Kind)
    (hfresh : id ∉ b.proc.ids) (hne : id ≠ Id.gen .flow (o n)) (hbelow : Below o lo n' ps' id)
    (hn : n + 1 ≤ n') (hps : ∀ m ∈ ps, m ∈ ps') (hk : kind ≠ .startEvent) :
    PBCore o lo n' ps' (linkStore o n b id kind) := by
  have hlo := inv.lo_le
  have hsid : Id.gen .flow (o n) ∉ b.proc.ids := fresh_gen hinj inv.below .flow (Nat.le_refl n)
  rw [linkStore_eq inv id kind]
  have hnd := inv.nodup
  rw [ids_unfold] at hnd hfresh hsid
  simp only [List.nodup_cons, List.nodup_append, List.mem_append, List.mem_cons, not_or] at hnd hfresh hsid
  refine ⟨by omega, ?_, ?_, ?_, ?_, ?_, ?_⟩
  · -- nodup
    simp only [ids_unfold, List.map_append, List.map_cons, List.map_nil, map_setOut_ids]
    simp only [List.nodup_cons, List.nodup_append, List.mem_append, List.mem_cons,
      List.not_mem_nil, or_false, not_or, List.nodup_nil, not_false_eq_true, and_true, true_and]
    refine ⟨⟨⟨hnd.1.1, fun h => hfresh.1 h.symm⟩, hnd.1.2, fun h => hsid.1 h.symm⟩,
      ⟨hnd.2.1, ?_⟩, ⟨hnd.2.2.1, ?_⟩, ?_⟩
    · intro a ha c hc h; subst hc; subst h; exact hfresh.2.1 ha
    · intro a ha c hc h; subst hc; subst h; exact hsid.2.2 ha
    · intro a ha c hc
      rcases ha with ha | rfl
      · rcases hc with hc | rfl
        · exact hnd.2.2.2 a ha c hc
        · intro h; subst h; exact hsid.2.1 ha
      · rcases hc with hc | rfl
        · intro h; subst h; exact hfresh.2.2 hc
        · exact hne
  · -- below
    intro i hi
    simp only [ids_unfold, List.map_append, List.map_cons, List.map_nil, map_setOut_ids, List.mem_cons,
      List.mem_append, List.not_mem_nil, or_false] at hi
    have old : ∀ j ∈ b.proc.ids, Below o lo n' ps' j := fun j hj => (inv.below j hj).mono (by omega) hps
    rcases hi with rfl | (hi | rfl) | (hi | rfl)
    · exact old _ (by simp [ids_unfold])
    · exact old _ (by simp [ids_unfold, hi])
    · exact hbelow
    · exact old _ (by simp [ids_unfold, hi])
    · exact Or.inl ⟨.flow, n, hlo, by omega, rfl⟩
  · -- flows
    intro f hf
    simp only [List.mem_append, List.mem_singleton] at hf
    rcases hf with hf | rfl
    · obtain ⟨⟨s, hs, hsrc, hout⟩, ⟨t, ht, htgt, hin⟩⟩ := inv.flows f hf
      refine ⟨⟨setOut b.ptrId (b.ptrOut ++ [Id.gen .flow (o n)]) s, ?_, ?_, ?_⟩,
        ⟨setOut b.ptrId (b.ptrOut ++ [Id.gen .flow (o n)]) t, ?_, ?_, ?_⟩⟩
      · exact List.mem_append_left _ (List.mem_map.mpr ⟨s, hs, rfl⟩)
      · rw [setOut_id]; exact hsrc
      · unfold setOut
        by_cases h : s.id = b.ptrId
        · simp only [h, if_true]
          have := inv.ptrAll s hs h
          rw [this] at hout
          exact List.mem_append_left _ hout
        · simp only [h, if_false]; exact hout
      · exact List.mem_append_left _ (List.mem_map.mpr ⟨t, ht, rfl⟩)
      · rw [setOut_id]; exact htgt
      · rw [setOut_incoming]; exact hin
    · obtain ⟨nd, hnd', hid⟩ := inv.ptrEx
      refine ⟨⟨setOut b.ptrId (b.ptrOut ++ [Id.gen .flow (o n)]) nd, ?_, ?_, ?_⟩, ⟨⟨id, kind, [Id.gen .flow (o n)], []⟩, ?_, rfl, ?_⟩⟩
      · exact List.mem_append_left _ (List.mem_map.mpr ⟨nd, hnd', rfl⟩)
      · rw [setOut_id]; exact hid
      · unfold setOut; simp [hid]
      · simp
      · simp
  · -- ptrEx
    exact ⟨⟨id, kind, [Id.gen .flow (o n)], []⟩, by simp, rfl⟩
  · -- ptrAll
    intro nd hnd' hid
    simp only [List.mem_append, List.mem_map, List.mem_singleton] at hnd'
    rcases hnd' with ⟨m, hm, rfl⟩ | rfl
    · exfalso
      have hid' : m.id = id := by rw [← setOut_id b.ptrId (b.ptrOut ++ [Id.gen .flow (o n)]) m]; exact hid
      exact hfresh.2.1 (hid' ▸ List.mem_map.mpr ⟨m, hm, rfl⟩)
    · rfl
  · -- startIn
    intro nd hnd' hkind
    simp only [List.mem_append, List.mem_map, List.mem_singleton] at hnd'
    rcases hnd' with ⟨m, hm, rfl⟩ | rfl
    · rw [setOut_incoming]; rw [setOut_kind] at hkind; exact inv.startIn m hm hkind
    · exact absurd hkind hk

end Bpmn.Lemmas.Builder

namespace Bpmn.Lemmas.Builder
open Bpmn.Model.Builder

/-- an activity kind the type switch `st` of `AddActivity` stores -/
def actOk (st : Kind → Bool) (k : Kind) : Prop := st k = true ∧ k ≠ .startEvent ∧ k ≠ .endEvent

instance (st : Kind → Bool) (k : Kind) : Decidable (actOk st k) := by unfold actOk; infer_instance

theorem PBCore.mono {o : Nat → Nat} {lo n n' : Nat} {ps ps' : List Nat} {b : PB} (inv : PBCore o lo n ps b)
    (hn : n ≤ n') (hp : ∀ m ∈ ps, m ∈ ps') : PBCore o lo n' ps' b :=
  { inv with below := fun i hi => (inv.below i hi).mono hn hp, lo_le := Nat.le_trans inv.lo_le hn }

theorem PBInv.mono {o : Nat → Nat} {lo n n' : Nat} {ps ps' : List Nat} {b : PB} (inv : PBInv o lo n ps b)
    (hn : n ≤ n') (hp : ∀ m ∈ ps, m ∈ ps') : PBInv o lo n' ps' b :=
  { inv.toPBCore.mono hn hp with noEnd := inv.noEnd }

theorem newPB_inv (o : Nat → Nat) (n : Nat) : PBInv o n (n + 2) [] (newPB o n).1 := by
  refine ⟨⟨by omega, ?_, ?_, ?_, ?_, ?_, ?_⟩, ?_⟩
  · simp [newPB, ids_unfold]
  · intro i hi
    simp only [newPB, ids_unfold, List.map_cons, List.map_nil, List.append_nil, List.mem_cons, List.not_mem_nil,
      or_false] at hi
    rcases hi with rfl | rfl
    · exact Or.inl ⟨_, n, by omega, by omega, rfl⟩
    · exact Or.inl ⟨_, n + 1, by omega, by omega, rfl⟩
  · intro f hf; simp [newPB] at hf
  · exact ⟨⟨Id.gen .event (o (n + 1)), .startEvent, [], []⟩, by simp [newPB], rfl⟩
  · intro nd hnd _; simp only [newPB, List.mem_singleton] at hnd; subst hnd; rfl
  · intro nd hnd _; simp only [newPB, List.mem_singleton] at hnd; subst hnd; rfl
  · intro nd hnd; simp only [newPB, List.mem_singleton] at hnd; subst hnd; simp

theorem linkStore_noEnd {o : Nat → Nat} {lo n : Nat} {ps : List Nat} {b : PB} (inv : PBInv o lo n ps b) (id : Id) (kind : Kind)
    (hk : kind ≠ .endEvent) : ∀ nd ∈ (linkStore o n b id kind).proc.nodes, nd.kind ≠ .endEvent := by
  rw [linkStore_eq inv.toPBCore id kind]
  intro nd hnd
  simp only [List.mem_append, List.mem_map, List.mem_singleton] at hnd
  rcases hnd with ⟨m, hm, rfl⟩ | rfl
  · rw [setOut_kind]; exact inv.noEnd m hm
  · exact hk

theorem addActivity_stored (st : Kind → Bool) (o : Nat → Nat) (n : Nat) (b : PB) (k : Kind) (pre : Option Nat)
    (hk : st k = true) :
    addActivity st o n b k pre = match pre with
      | some m => (linkStore o n b (Id.preset m) k, n + 1)
      | none => (linkStore o (n + 1) b (Id.gen .activity (o n)) k, n + 2) := by
  cases pre <;> simp [addActivity, hk, linkStore, link]

theorem addActivity_inv {st : Kind → Bool} {o : Nat → Nat} (hinj : ∀ a b, o a = o b → a = b) {lo n : Nat}
    {ps : List Nat} {b : PB}
    (inv : PBInv o lo n ps b) (k : Kind) (pre : Option Nat) (hk : actOk st k) (hpre : ∀ m, pre = some m → m ∉ ps) :
    PBInv o lo (addActivity st o n b k pre).2 (pre.toList ++ ps) (addActivity st o n b k pre).1 ∧
      n ≤ (addActivity st o n b k pre).2 := by
  rw [addActivity_stored st o n b k pre hk.1]
  cases pre with
  | some m =>
    refine ⟨⟨?_, ?_⟩, Nat.le_add_right n 1⟩
    · show PBCore o lo (n + 1) (m :: ps) (linkStore o n b (Id.preset m) k)
      refine linkStore_core hinj inv.toPBCore _ k (fresh_preset inv.below (hpre m rfl)) (by intro h; cases h)
        (Or.inr ⟨m, by simp, rfl⟩) (Nat.le_refl _) (by intro x hx; simp [hx]) hk.2.1
    · exact linkStore_noEnd inv _ k hk.2.2
  | none =>
    have inv1 : PBInv o lo (n + 1) ps b := inv.mono (by omega) (fun _ h => h)
    have hlo := inv.lo_le
    refine ⟨⟨?_, ?_⟩, Nat.le_add_right n 2⟩
    · show PBCore o lo (n + 2) ps (linkStore o (n + 1) b (Id.gen .activity (o n)) k)
      refine linkStore_core hinj inv1.toPBCore _ k (fresh_gen hinj inv.below .activity (Nat.le_refl n))
        (by intro h; cases h) (Or.inl ⟨_, n, hlo, by omega, rfl⟩) (Nat.le_refl _) (by intro x hx; simpa using hx) hk.2.1
    · exact linkStore_noEnd inv1 _ k hk.2.2

theorem addAll_inv {st : Kind → Bool} {o : Nat → Nat} (hinj : ∀ a b, o a = o b → a = b)
    (acts : List (Kind × Option Nat)) :
    ∀ {lo n : Nat} {ps : List Nat} {b : PB}, PBInv o lo n ps b → (∀ a ∈ acts, actOk st a.1) →
      (acts.filterMap (·.2)).Nodup → (∀ m ∈ acts.filterMap (·.2), m ∉ ps) →
      PBInv o lo (addAll st o n b acts).2 (acts.filterMap (·.2) ++ ps) (addAll st o n b acts).1 ∧
        n ≤ (addAll st o n b acts).2 := by
  induction acts with
  | nil => intro lo n ps b inv _ _ _; simpa [addAll] using inv
  | cons a rest ih =>
    intro lo n ps b inv hok hnd hdis
    obtain ⟨k, pre⟩ := a
    have hstep := addActivity_inv hinj inv k pre (hok (k, pre) (by simp)) (by
      intro m hm; subst hm; exact hdis m (by simp))
    have hnd' : (rest.filterMap (·.2)).Nodup := by
      cases pre with
      | none => simpa using hnd
      | some m => simp only [List.filterMap_cons, List.nodup_cons] at hnd; exact hnd.2
    have hdis' : ∀ m ∈ rest.filterMap (·.2), m ∉ pre.toList ++ ps := by
      intro m hm
      have h1 : m ∉ ps := hdis m (by
        cases pre with
        | none => simpa using hm
        | some m' => simp only [List.filterMap_cons, List.mem_cons]; exact Or.inr hm)
      cases pre with
      | none => simpa using h1
      | some m' =>
        simp only [List.filterMap_cons, List.nodup_cons] at hnd
        simp only [Option.toList_some, List.singleton_append, List.mem_cons, not_or]
        exact ⟨fun h => hnd.1 (h ▸ hm), h1⟩
    have := ih hstep.1 (fun a ha => hok a (List.mem_cons_of_mem _ ha)) hnd' hdis'
    simp only [addAll]
    refine ⟨this.1.mono (Nat.le_refl _) ?_, Nat.le_trans hstep.2 this.2⟩
    intro m hm
    cases pre with
    | none => simpa using hm
    | some m' =>
      simp only [Option.toList_some, List.singleton_append, List.mem_append, List.mem_cons] at hm
      simp only [List.filterMap_cons, List.mem_append, List.mem_cons]
      rcases hm with hm | rfl | hm
      · exact Or.inl (Or.inr hm)
      · exact Or.inl (Or.inl rfl)
      · exact Or.inr hm

/-- everything C19 asks of one built process (plus the freshness bound used for the definitions level) -/
structure ProcWF (o : Nat → Nat) (lo n : Nat) (ps : List Nat) (p : Proc) : Prop where
  nodup : p.ids.Nodup
  below : ∀ i ∈ p.ids, Below o lo n ps i
  flows : ∀ f ∈ p.flows, (∃ s ∈ p.nodes, s.id = f.src ∧ f.id ∈ s.outgoing) ∧
    (∃ t ∈ p.nodes, t.id = f.tgt ∧ f.id ∈ t.incoming)
  startIn : ∀ nd ∈ p.nodes, nd.kind = .startEvent → nd.incoming = []
  endOut : ∀ nd ∈ p.nodes, nd.kind = .endEvent → nd.outgoing = []

theorem outPB_proc (o : Nat → Nat) (n : Nat) (b : PB) :
    (outPB o n b).1 = (linkStore o (n + 1) b (Id.gen .event (o n)) .endEvent).proc := rfl

theorem outPB_counter (o : Nat → Nat) (n : Nat) (b : PB) : (outPB o n b).2.2 = n + 4 := rfl

theorem outPB_wf {o : Nat → Nat} (hinj : ∀ a b, o a = o b → a = b) {lo n : Nat} {ps : List Nat} {b : PB}
    (inv : PBInv o lo n ps b) : ProcWF o lo (n + 2) ps (outPB o n b).1 := by
  rw [outPB_proc]
  have hlo := inv.lo_le
  have inv1 : PBInv o lo (n + 1) ps b := inv.mono (by omega) (fun _ h => h)
  have core := linkStore_core hinj inv1.toPBCore (Id.gen .event (o n)) .endEvent
    (fresh_gen hinj inv.below .event (Nat.le_refl n)) (by intro h; cases h)
    (n' := n + 2) (ps' := ps) (Or.inl ⟨_, n, hlo, by omega, rfl⟩) (Nat.le_refl _) (fun _ h => h) (by decide)
  refine ⟨core.nodup, core.below, core.flows, core.startIn, ?_⟩
  rw [linkStore_eq inv1.toPBCore]
  intro nd hnd hk
  simp only [List.mem_append, List.mem_map, List.mem_singleton] at hnd
  rcases hnd with ⟨m, hm, rfl⟩ | rfl
  · rw [setOut_kind] at hk; exact absurd hk (inv.noEnd m hm)
  · rfl

theorem buildProcess_wf {st : Kind → Bool} {o : Nat → Nat} (hinj : ∀ a b, o a = o b → a = b) (n : Nat)
    (acts : List (Kind × Option Nat))
    (hok : ∀ a ∈ acts, actOk st a.1) (hnd : (acts.filterMap (·.2)).Nodup) :
    ProcWF o n (buildProcess st o n acts).2 (acts.filterMap (·.2)) (buildProcess st o n acts).1 ∧
      n ≤ (buildProcess st o n acts).2 := by
  have h0 := newPB_inv o n
  have h1 := addAll_inv hinj acts h0 hok hnd (by intro m _; simp)
  have h2 := outPB_wf hinj h1.1
  simp only [List.append_nil] at h2
  have hn : (newPB o n).2 = n + 2 := rfl
  unfold buildProcess
  simp only [hn]
  constructor
  · have : ProcWF o n ((addAll st o (n + 2) (newPB o n).1 acts).2 + 4) (acts.filterMap (·.2))
        (outPB o (addAll st o (n + 2) (newPB o n).1 acts).2 (addAll st o (n + 2) (newPB o n).1 acts).1).1 :=
      { h2 with below := fun i hi => (h2.below i hi).mono (by omega) (fun _ h => h) }
    exact this
  · have := h1.2
    show n ≤ (addAll st o (n + 2) (newPB o n).1 acts).2 + 4
    omega

end Bpmn.Lemmas.Builder

namespace Bpmn.Lemmas.Builder
open Bpmn.Model.Builder

/-! ### several processes built one after the other -/

theorem Below.mono_lo {o : Nat → Nat} {lo lo' n : Nat} {ps ps' : List Nat} {i : Id}
    (h : Below o lo n ps i) (hl : lo' ≤ lo) (hp : ∀ m ∈ ps, m ∈ ps') : Below o lo' n ps' i := by
  rcases h with ⟨p, k, hl', hk, rfl⟩ | ⟨m, hm, rfl⟩
  · exact Or.inl ⟨p, k, by omega, hk, rfl⟩
  · exact Or.inr ⟨m, hp m hm, rfl⟩

theorem below_disjoint {o : Nat → Nat} (hinj : ∀ a b, o a = o b → a = b) {lo1 hi1 lo2 hi2 : Nat} {ps1 ps2 : List Nat}
    {i : Id} (h1 : Below o lo1 hi1 ps1 i) (h2 : Below o lo2 hi2 ps2 i) (hle : hi1 ≤ lo2)
    (hps : ∀ m ∈ ps1, m ∉ ps2) : False := by
  rcases h1 with ⟨p, k, _, hk, rfl⟩ | ⟨m, hm, rfl⟩
  · rcases h2 with ⟨p', k', hl', _, heq⟩ | ⟨m', _, heq⟩
    · injection heq with _ h
      have := hinj _ _ h
      omega
    · cases heq
  · rcases h2 with ⟨p', k', _, _, heq⟩ | ⟨m', hm', heq⟩
    · cases heq
    · injection heq with h
      exact hps m hm (h ▸ hm')

/-- each script starts at a value of the call counter not below the one the previous build ended with
(in between the definitions builder may have drawn ids of its own) -/
def Chained (st : Kind → Bool) (o : Nat → Nat) : Nat → List (Nat × List (Kind × Option Nat)) → Prop
  | _, [] => True
  | lo, sc :: rest => lo ≤ sc.1 ∧ Chained st o (buildProcess st o sc.1 sc.2).2 rest

def presetsOf (scripts : List (Nat × List (Kind × Option Nat))) : List Nat :=
  scripts.flatMap (fun sc => sc.2.filterMap (·.2))

def builtProcs (st : Kind → Bool) (o : Nat → Nat) (scripts : List (Nat × List (Kind × Option Nat))) : List Proc :=
  scripts.map (fun sc => (buildProcess st o sc.1 sc.2).1)

theorem built_ids_nodup {st : Kind → Bool} {o : Nat → Nat} (hinj : ∀ a b, o a = o b → a = b) :
    ∀ (scripts : List (Nat × List (Kind × Option Nat))) (lo : Nat), Chained st o lo scripts →
      (∀ sc ∈ scripts, ∀ a ∈ sc.2, actOk st a.1) → (presetsOf scripts).Nodup →
      ((builtProcs st o scripts).flatMap Proc.ids).Nodup ∧
      ∀ i ∈ (builtProcs st o scripts).flatMap Proc.ids, ∃ hi, Below o lo hi (presetsOf scripts) i := by
  intro scripts
  induction scripts with
  | nil => intro lo _ _ _; simp [builtProcs]
  | cons sc rest ih =>
    intro lo hch hok hnd
    simp only [presetsOf, List.flatMap_cons, List.nodup_append] at hnd
    obtain ⟨wf, hle⟩ := buildProcess_wf hinj sc.1 sc.2 (hok sc (by simp)) hnd.1
    obtain ⟨ih1, ih2⟩ := ih (buildProcess st o sc.1 sc.2).2 hch.2
      (fun sc' h => hok sc' (List.mem_cons_of_mem _ h)) hnd.2.1
    have hlo : lo ≤ sc.1 := hch.1
    simp only [builtProcs, List.map_cons, List.flatMap_cons]
    constructor
    · rw [List.nodup_append]
      refine ⟨wf.nodup, ih1, ?_⟩
      intro a ha b hb hab
      subst hab
      obtain ⟨hi, hb'⟩ := ih2 a hb
      exact below_disjoint hinj (wf.below a ha) hb' (Nat.le_refl _) (fun m hm hm' => hnd.2.2 m hm m hm' rfl)
    · intro i hi
      rcases List.mem_append.mp hi with hi | hi
      · exact ⟨_, (wf.below i hi).mono_lo hlo (by intro m hm; simp [presetsOf, hm])⟩
      · obtain ⟨hi', hb⟩ := ih2 i hi
        exact ⟨hi', hb.mono_lo (by omega) (by
          intro m hm
          simp only [presetsOf, List.flatMap_cons, List.mem_append]
          exact Or.inr hm)⟩

end Bpmn.Lemmas.Builder
