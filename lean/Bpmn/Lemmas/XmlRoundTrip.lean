import Bpmn.Lemmas.Xml
/-!
Tree-level round trip of the generic XML codec: for EVERY schema table `S` that passes the
decidable table check `rtTableB`, every trimming function and every well-typed tree of any size
and depth, `parse S (marshal S tr n) = some (normRoot S tr n)`.

The proof is a mutual structural induction over `Node` / `List (List Node)` / `List Node`
following `marshalNode` / `marshalFields` / `marshalKids`.
-/
namespace Bpmn.Model.Xml

/-! ## The table check the theorem needs (decidable; evaluated by the kernel on the extracted table) -/

/-- the element written for a child of field `f` either carries a non-empty prefix that the ROOT
declares and binds to the namespace of the field's tag, or is un-prefixed and declares that
namespace as its default namespace -/
def headOkB (S : Schema) (f : Field) : Bool :=
  let h := elemHead S f (invokedKind S f)
  (h.1.pfx != 0 && h.2.isEmpty && S.rootDecls.lookup h.1.pfx == some f.ns) ||
  (h.1.pfx == 0 && h.2 == [(0, f.ns)])

/-- per type: element tags pairwise distinguishable, attribute tags likewise and un-namespaced,
element tags namespaced and written with a head the decoder resolves, no value-typed
`AnExpression` field encoded by the default rules, and the defaults the marshaler applies are the
ones the unmarshaler applies -/
def typeOkB (S : Schema) (ty : Nat) : Bool :=
  pairwiseNoClash (elemFields S ty) && pairwiseNoClash (attrFields S ty)
  && (attrFields S ty).all (fun f => f.f.ns == 0)
  && (elemFields S ty).all (fun f => f.f.ns != 0 && headOkB S f.f
        && !(byDefaultRules S f.f && f.f.ty == S.anExprTy))
  && ((attrFields S ty).isEmpty || marshalDefaults S ty == unmarshalDefaults S ty)

def rtTableB (S : Schema) : Bool :=
  (List.range S.structs.length).all (fun i => i == S.anExprTy || typeOkB S i)
  && S.xsiPrefix != 0 && S.rootDecls.lookup S.xsiPrefix == some S.xsiNs
  && S.formalTy != S.anExprTy && S.informalTy != S.anExprTy && S.formalTy != S.informalTy
  && S.rootTy != S.anExprTy
  && !isFormalValue S S.informalValue
  && (attrFields S S.formalTy).all (·.f.name != S.typeLocal)
  && (attrFields S S.informalTy).all (·.f.name != S.typeLocal)

/-! ## Small facts -/

theorem fieldsOf_not_struct (S : Schema) (ty : Nat) (h : ¬ ty < S.structs.length) : fieldsOf S ty = [] := by
  have hs : S.struct? ty = none := by
    unfold Schema.struct?
    exact List.getElem?_eq_none (by omega)
  simp [fieldsOf, flattenFuel, flatten, hs]

theorem typeOkB_not_struct (S : Schema) (ty : Nat) (h : ¬ ty < S.structs.length) : typeOkB S ty = true := by
  simp [typeOkB, elemFields, attrFields, fieldsOf_not_struct S ty h, pairwiseNoClash]

theorem typeOk_of_table (S : Schema) (h : rtTableB S = true) (ty : Nat) (hne : ty ≠ S.anExprTy) :
    typeOkB S ty = true := by
  by_cases hs : ty < S.structs.length
  · unfold rtTableB at h
    simp only [Bool.and_eq_true] at h
    have h1 := h.1.1.1.1.1.1.1.1.1
    have := List.all_eq_true.mp h1 ty (List.mem_range.mpr hs)
    simpa [hne] using this
  · exact typeOkB_not_struct S ty hs

/-- the invariant of the namespace environment below the root: every non-empty prefix means what
the root declared (elements below only ever add default-namespace declarations) -/
def EnvOk (S : Schema) (env : List (Nat × Nat)) : Prop :=
  ∀ p, p ≠ 0 → env.lookup p = S.rootDecls.lookup p

theorem envOk_root (S : Schema) : EnvOk S (S.rootDecls ++ []) := by
  intro p _; simp

theorem elemHead_loc (S : Schema) (f : Field) (k : MarshalKind) : (elemHead S f k).1.loc = f.name := by
  unfold elemHead
  cases k <;> simp
  case pre => cases S.nsPrefix.lookup f.ns <;> simp

theorem head_resolves (S : Schema) (f : Field) (env : List (Nat × Nat)) (hh : headOkB S f = true)
    (henv : EnvOk S env) :
    resolveElem ((elemHead S f (invokedKind S f)).2 ++ env) (elemHead S f (invokedKind S f)).1 = some f.ns ∧
    EnvOk S ((elemHead S f (invokedKind S f)).2 ++ env) := by
  unfold headOkB at hh
  generalize elemHead S f (invokedKind S f) = h at hh
  obtain ⟨q, d⟩ := h
  simp only [Bool.or_eq_true, Bool.and_eq_true, bne_iff_ne, ne_eq, beq_iff_eq, List.isEmpty_iff] at hh
  rcases hh with ⟨⟨hp, hd⟩, hl⟩ | ⟨hp, hd⟩
  · subst hd
    refine ⟨?_, by simpa using henv⟩
    simp [resolveElem, henv q.pfx hp, hl]
  · subst hd
    refine ⟨?_, ?_⟩
    · simp [resolveElem, hp]
    · intro p hp0
      have : (p == 0) = false := by simpa using hp0
      simp [List.lookup, this, henv p hp0]

/-! ## Attributes -/

theorem findAttr_skip' (env : List (Nat × Nat)) (g : Field) (q : QN) (v : String)
    (rest : List (QN × String)) (hne : g.name ≠ q.loc) :
    findAttr env g ((q, v) :: rest) = findAttr env g rest := by
  simp only [findAttr]
  cases findAttr env g rest with
  | some w => rfl
  | none => simp [nameMatches, hne]

theorem applyDefault_nil (go : Nat) (v : String) : applyDefault [] go v = v := by
  simp [applyDefault]

theorem applyDefault_idem (d : List (Nat × String)) (go : Nat) (v : String) :
    applyDefault d go (applyDefault d go v) = applyDefault d go v := by
  unfold applyDefault
  cases d.lookup go with
  | none => rfl
  | some c =>
    by_cases hv : v = ""
    · by_cases hc : c = "" <;> simp [hv, hc]
    · simp [hv]

theorem normAttrs_compose (d dflt : List (Nat × String)) (hd : dflt = [] ∨ dflt = d) :
    ∀ (afs : List FField) (a : List (Option String)),
      List.zipWith (fun (f : FField) (v : Option String) => v.map (applyDefault d f.f.go)) afs
        (normAttrs dflt afs a) = normAttrs d afs a := by
  intro afs
  induction afs with
  | nil => intro a; simp [normAttrs]
  | cons f rest ih =>
    intro a
    cases a with
    | nil => simp [normAttrs]
    | cons v vs =>
      simp only [normAttrs, List.zipWith_cons_cons, ih vs]
      congr 1
      cases v with
      | none => rfl
      | some x =>
        rcases hd with hd | hd
        · simp [hd, applyDefault_nil]
        · simp [hd, applyDefault_idem]

theorem map_eq_zipWith_map {α β γ : Type} (g : α → β → γ) (X : α → β) :
    ∀ l : List α, l.map (fun a => g a (X a)) = List.zipWith g l (l.map X) := by
  intro l; induction l with
  | nil => rfl
  | cons a l ih => simp [ih]

theorem normAttrs_nil_fields (d : List (Nat × String)) (a : List (Option String)) :
    normAttrs d [] a = [] := by cases a <;> simp [normAttrs]

theorem encodeAttrs_mem (d : List (Nat × String)) :
    ∀ (afs : List FField) (a : List (Option String)) (q : QN) (v : String),
      (q, v) ∈ encodeAttrs d afs a → ∃ f ∈ afs, q = ⟨0, f.f.name⟩ := by
  intro afs
  induction afs with
  | nil => intro a q v h; cases a <;> simp [encodeAttrs] at h
  | cons f rest ih =>
    intro a q v h
    cases a with
    | nil => simp [encodeAttrs] at h
    | cons x xs =>
      cases x with
      | none =>
        simp only [encodeAttrs] at h
        obtain ⟨g, hg, e⟩ := ih xs q v h
        exact ⟨g, by simp [hg], e⟩
      | some w =>
        simp only [encodeAttrs, List.mem_cons] at h
        rcases h with h | h
        · exact ⟨f, by simp, by simpa using congrArg Prod.fst h⟩
        · obtain ⟨g, hg, e⟩ := ih xs q v h
          exact ⟨g, by simp [hg], e⟩

/-- the attributes read back for a struct of type `ty` from what the encoder wrote for it -/
theorem attrs_back (S : Schema) (env : List (Nat × Nat)) (ty : Nat) (dflt : List (Nat × String))
    (extra : List (QN × String)) (a : List (Option String))
    (hok : typeOkB S ty = true) (hlen : a.length = (attrFields S ty).length)
    (hd : dflt = [] ∨ dflt = marshalDefaults S ty)
    (hextra : ∀ g ∈ attrFields S ty, ∀ rest, findAttr env g.f (extra ++ rest) = findAttr env g.f rest) :
    (attrFields S ty).map (fun f => (findAttr env f.f (extra ++ encodeAttrs dflt (attrFields S ty) a)).map
        (applyDefault (unmarshalDefaults S ty) f.f.go)) =
      normAttrs (unmarshalDefaults S ty) (attrFields S ty) a := by
  unfold typeOkB at hok
  simp only [Bool.and_eq_true, Bool.or_eq_true, List.isEmpty_iff, beq_iff_eq] at hok
  obtain ⟨⟨⟨⟨_, hda⟩, hns⟩, _⟩, hdef⟩ := hok
  have hns' : ∀ f ∈ attrFields S ty, f.f.ns = 0 := by
    intro f hf
    have := List.all_eq_true.mp hns f hf
    simpa using this
  rcases hdef with hnil | hdef
  · simp [hnil, normAttrs_nil_fields]
  · have h1 : (attrFields S ty).map (fun f => findAttr env f.f (extra ++ encodeAttrs dflt (attrFields S ty) a)) =
        normAttrs dflt (attrFields S ty) a := by
      rw [← findAttr_encodeAttrs env dflt (attrFields S ty) a hlen hda hns']
      apply List.map_congr_left
      intro g hg
      exact hextra g hg _
    rw [map_eq_zipWith_map (fun (f : FField) (v : Option String) => v.map (applyDefault (unmarshalDefaults S ty) f.f.go))
      (fun f => findAttr env f.f (extra ++ encodeAttrs dflt (attrFields S ty) a)), h1]
    apply normAttrs_compose
    rcases hd with hd | hd
    · exact Or.inl hd
    · exact Or.inr (by rw [hd, hdef])

/-- the type attribute written by `AnExpression.MarshalXML` is recognised exactly for a formal
expression, whatever other attributes the expression carries -/
theorem isFormal_typeAttr (S : Schema) (h : rtTableB S = true) (env : List (Nat × Nat)) (henv : EnvOk S env)
    (cty : Nat) (hc : cty = S.formalTy ∨ cty = S.informalTy) (d : List (Nat × String))
    (a : List (Option String)) :
    isFormal S env ([typeAttr S cty] ++ encodeAttrs d (attrFields S cty) a) = (cty == S.formalTy) := by
  unfold rtTableB at h
  simp only [Bool.and_eq_true, bne_iff_ne, ne_eq, beq_iff_eq, Bool.not_eq_true'] at h
  obtain ⟨⟨⟨⟨⟨⟨⟨⟨⟨_, hx0⟩, hxd⟩, _⟩, _⟩, hfi⟩, _⟩, hinf⟩, hfa⟩, hia⟩ := h
  have hrest : (encodeAttrs d (attrFields S cty) a).any (fun (q, v) =>
      resolveAttr env q == some S.xsiNs && q.loc == S.typeLocal && isFormalValue S v) = false := by
    rw [List.any_eq_false]
    intro ⟨q, v⟩ hm
    obtain ⟨f, hf, hq⟩ := encodeAttrs_mem d _ a q v hm
    have hname : f.f.name ≠ S.typeLocal := by
      rcases hc with hc | hc
      · have := List.all_eq_true.mp hfa f (hc ▸ hf); simpa using this
      · have := List.all_eq_true.mp hia f (hc ▸ hf); simpa using this
    simp [hq, hname]
  have hres : resolveAttr env ⟨S.xsiPrefix, S.typeLocal⟩ = some S.xsiNs := by
    simp [resolveAttr, hx0, henv S.xsiPrefix hx0, hxd]
  unfold isFormal
  rw [List.any_append, hrest]
  rcases hc with hc | hc
  · simp [typeAttr, hc, hres, isFormalValue]
  · have hne : ¬ S.informalTy = S.formalTy := fun e => hfi e.symm
    simp [typeAttr, hc, hres, hinf, hne]

/-! ## Children: tagging and collecting -/

/-- the (field number, child) list the decoder builds for the children written field by field -/
def tagFrom : Nat → List (List Node) → List (Nat × Node)
  | _, [] => []
  | k, l :: ls => l.map (fun c => (k, c)) ++ tagFrom (k + 1) ls

theorem collect_append (i : Nat) (a b : List (Nat × Node)) :
    collect i (a ++ b) = collect i a ++ collect i b := by
  induction a with
  | nil => rfl
  | cons x xs ih =>
    obtain ⟨j, n⟩ := x
    simp only [List.cons_append, collect]
    by_cases h : (j == i) = true <;> simp [h, ih]

theorem collect_tag (i k : Nat) (l : List Node) :
    collect i (l.map (fun c => (k, c))) = if k = i then l else [] := by
  induction l with
  | nil => simp [collect]
  | cons c cs ih =>
    simp only [List.map_cons, collect, ih]
    by_cases h : k = i <;> simp [h]

theorem collect_tagFrom (i : Nat) : ∀ (ls : List (List Node)) (k : Nat),
    collect i (tagFrom k ls) = if k ≤ i then ls.getD (i - k) [] else [] := by
  intro ls
  induction ls with
  | nil => intro k; simp [tagFrom, collect]
  | cons l ls ih =>
    intro k
    simp only [tagFrom, collect_append, collect_tag, ih (k + 1)]
    by_cases h1 : k = i
    · subst h1; simp; intro h; omega
    · by_cases h2 : k ≤ i
      · have h3 : k + 1 ≤ i := by omega
        have h4 : i - k = (i - (k + 1)) + 1 := by omega
        simp [h1, h2, h3, h4]
      · have h3 : ¬ k + 1 ≤ i := by omega
        simp [h1, h2, h3]

theorem normKids_length (S : Schema) (tr : String → String) (f : Field) :
    ∀ cs : List Node, (normKids S tr f cs).length = cs.length
  | [] => by simp [normKids]
  | .mk cty a k t :: cs => by simp [normKids, normKids_length S tr f cs]

theorem normFields_length (S : Schema) (tr : String → String) :
    ∀ (fs : List FField) (kss : List (List Node)), wtFields S fs kss = true →
      (normFields S tr fs kss).length = fs.length
  | [], [], _ => by simp [normFields]
  | [], _ :: _, h => by simp [wtFields] at h
  | _ :: _, [], h => by simp [wtFields] at h
  | f :: fs, ks :: kss, h => by
    simp only [wtFields, Bool.and_eq_true] at h
    simp [normFields, normFields_length S tr fs kss h.2]

/-- a value field of a well-typed node is never empty, so nothing has to be filled in -/
theorem fill_normFields (S : Schema) (tr : String → String) :
    ∀ (fs : List FField) (kss : List (List Node)), wtFields S fs kss = true →
      ∀ (i : Nat) (f : FField), fs[i]? = some f →
        fillValue S f.f ((normFields S tr fs kss).getD i []) = (normFields S tr fs kss).getD i []
  | [], [], _, i, f, hf => by simp at hf
  | [], _ :: _, h, _, _, _ => by simp [wtFields] at h
  | _ :: _, [], h, _, _, _ => by simp [wtFields] at h
  | g :: fs, ks :: kss, h, i, f, hf => by
    simp only [wtFields, Bool.and_eq_true, Bool.or_eq_true, bne_iff_ne, ne_eq, Bool.not_eq_true',
      List.isEmpty_eq_false_iff] at h
    obtain ⟨⟨hval, _⟩, hrest⟩ := h
    cases i with
    | zero =>
      simp at hf
      subst hf
      simp only [normFields, List.getD_cons_zero]
      unfold fillValue
      by_cases hv : g.f.rep = .val
      · have hne : ks ≠ [] := by
          rcases hval with hval | hval
          · exact absurd hv hval
          · exact hval
        have : normKids S tr g.f ks ≠ [] := by
          intro e
          have := congrArg List.length e
          rw [normKids_length] at this
          exact hne (List.length_eq_zero_iff.mp this)
        simp [this]
      · simp [hv]
    | succ j =>
      simp at hf
      simpa [normFields] using fill_normFields S tr fs kss hrest j f hf

/-! ## One child, by case of `marshalKids` -/

def kidExtra (S : Schema) (f : Field) (cty : Nat) : List (QN × String) :=
  if !byDefaultRules S f && f.ty == S.anExprTy then [typeAttr S cty] else []

def kidDefaults (S : Schema) (f : Field) : List (Nat × String) :=
  if byDefaultRules S f || f.ty == S.anExprTy then [] else marshalDefaults S f.ty

theorem marshalKids_cons (S : Schema) (tr : String → String) (f : Field) (cty : Nat)
    (a : List (Option String)) (k : List (List Node)) (t : String) (cs : List Node)
    (h1 : ¬ (byDefaultRules S f = true ∧ f.ty = S.anExprTy))
    (h2 : ¬ (f.ty = S.anExprTy ∧ cty = S.anExprTy)) :
    marshalKids S tr f (.mk cty a k t :: cs) =
      marshalNode S tr (elemHead S f (invokedKind S f)) (kidExtra S f cty) (kidTrim S f cty)
        (kidDefaults S f) (.mk cty a k t) :: marshalKids S tr f cs := by
  rw [marshalKids]
  have h2' : (f.ty == S.anExprTy && cty == S.anExprTy) = false := by
    simpa [Bool.and_eq_false_iff] using fun e => by
      intro e2; exact h2 ⟨e, e2⟩
  simp only [h2', Bool.false_eq_true, if_false]
  by_cases hb : byDefaultRules S f = true
  · have hne : ¬ f.ty = S.anExprTy := fun e => h1 ⟨hb, e⟩
    simp [hb, hne, invokedKind, kidExtra, kidTrim, kidDefaults]
  · have hb' : byDefaultRules S f = false := by simpa using hb
    by_cases he : f.ty = S.anExprTy
    · simp [hb', he, invokedKind, kidExtra, kidTrim, kidDefaults]
    · simp [hb', he, invokedKind, kidExtra, kidTrim, kidDefaults]

end Bpmn.Model.Xml

namespace Bpmn.Model.Xml

/-! ## The tree-level round trip -/

theorem table_facts (S : Schema) (h : rtTableB S = true) :
    S.xsiPrefix ≠ 0 ∧ S.rootDecls.lookup S.xsiPrefix = some S.xsiNs ∧ S.formalTy ≠ S.anExprTy ∧
    S.informalTy ≠ S.anExprTy ∧ S.formalTy ≠ S.informalTy ∧ S.rootTy ≠ S.anExprTy ∧
    (∀ f ∈ attrFields S S.formalTy, f.f.name ≠ S.typeLocal) ∧
    (∀ f ∈ attrFields S S.informalTy, f.f.name ≠ S.typeLocal) := by
  unfold rtTableB at h
  simp only [Bool.and_eq_true, bne_iff_ne, ne_eq, beq_iff_eq, Bool.not_eq_true'] at h
  obtain ⟨⟨⟨⟨⟨⟨⟨⟨⟨_, hx0⟩, hxd⟩, h1⟩, h2⟩, h3⟩, h4⟩, _⟩, hfa⟩, hia⟩ := h
  refine ⟨hx0, hxd, h1, h2, h3, h4, ?_, ?_⟩
  · intro f hf; have := List.all_eq_true.mp hfa f hf; simpa using this
  · intro f hf; have := List.all_eq_true.mp hia f hf; simpa using this

def ElemOk (S : Schema) (f : FField) : Prop :=
  f.f.ns ≠ 0 ∧ headOkB S f.f = true ∧ ¬ (byDefaultRules S f.f = true ∧ f.f.ty = S.anExprTy)

theorem elem_facts (S : Schema) (ty : Nat) (hok : typeOkB S ty = true) :
    pairwiseNoClash (elemFields S ty) = true ∧ ∀ f ∈ elemFields S ty, ElemOk S f := by
  unfold typeOkB at hok
  simp only [Bool.and_eq_true] at hok
  obtain ⟨⟨⟨⟨hde, _⟩, _⟩, hel⟩, _⟩ := hok
  refine ⟨hde, ?_⟩
  intro f hf
  have := List.all_eq_true.mp hel f hf
  simp only [Bool.and_eq_true, bne_iff_ne, ne_eq, Bool.not_eq_true', Bool.and_eq_false_iff] at this
  obtain ⟨⟨h1, h2⟩, h3⟩ := this
  refine ⟨h1, h2, ?_⟩
  intro ⟨e1, e2⟩
  rcases h3 with h3 | h3
  · simp [e1] at h3
  · simp [e2] at h3

theorem extra_inert (S : Schema) (h : rtTableB S = true) (env : List (Nat × Nat)) (f : Field) (cty : Nat)
    (hc : f.ty = S.anExprTy → cty = S.formalTy ∨ cty = S.informalTy) :
    ∀ g ∈ attrFields S cty, ∀ rest, findAttr env g.f (kidExtra S f cty ++ rest) = findAttr env g.f rest := by
  intro g hg rest
  obtain ⟨_, _, _, _, _, _, hfa, hia⟩ := table_facts S h
  unfold kidExtra
  by_cases he : (!byDefaultRules S f && f.ty == S.anExprTy) = true
  · simp only [he, if_true, List.singleton_append, typeAttr]
    apply findAttr_skip'
    have hf : f.ty = S.anExprTy := by
      simp only [Bool.and_eq_true, beq_iff_eq] at he; exact he.2
    rcases hc hf with e | e
    · exact hfa g (e ▸ hg)
    · exact hia g (e ▸ hg)
  · simp [he]

theorem kids_back (S : Schema) (tr : String → String) (efs : List FField) (kss : List (List Node))
    (hwf : wtFields S efs kss = true) :
    (efs.zipIdx).map (fun (p : FField × Nat) =>
        fillValue S p.1.f (collect p.2 (tagFrom 0 (normFields S tr efs kss)))) =
      normFields S tr efs kss := by
  have hl := normFields_length S tr efs kss hwf
  apply List.ext_getElem
  · simp [hl]
  · intro i h1 h2
    simp only [List.getElem_map, List.getElem_zipIdx, collect_tagFrom, Nat.zero_le, if_true, Nat.sub_zero,
      Nat.zero_add]
    have hi : i < efs.length := by simpa using h1
    have := fill_normFields S tr efs kss hwf i efs[i] (by simp [hi])
    rw [this]
    simp [List.getD, h2]

mutual
theorem rt_node (S : Schema) (tr : String → String) (h : rtTableB S = true) :
    ∀ (n : Node) (env : List (Nat × Nat)) (head : QN × List (Nat × Nat)) (extra : List (QN × String))
      (trim : Bool) (dflt : List (Nat × String)) (ty : Nat),
      EnvOk S (head.2 ++ env) →
      wellTypedB S n = true →
      n.ty ≠ S.anExprTy →
      parseTy S (head.2 ++ env) ty (extra ++ encodeAttrs dflt (attrFields S n.ty) n.attrs) = n.ty →
      (dflt = [] ∨ dflt = marshalDefaults S n.ty) →
      (∀ g ∈ attrFields S n.ty, ∀ rest,
        findAttr (head.2 ++ env) g.f (extra ++ rest) = findAttr (head.2 ++ env) g.f rest) →
      parseElem S env ty (marshalNode S tr head extra trim dflt n) = some (norm S tr trim n)
  | .mk cty a k t, env, head, extra, trim, dflt, ty, henv, hwt, hne, hty, hd, hextra => by
    simp only [Node.ty, Node.attrs] at hne hty hd hextra
    have hok := typeOk_of_table S h cty hne
    simp only [wellTypedB, Bool.and_eq_true, beq_iff_eq] at hwt
    obtain ⟨⟨hlen, hwf⟩, _⟩ := hwt
    obtain ⟨hde, hel⟩ := elem_facts S cty hok
    have hkids := rt_fields S tr h k (head.2 ++ env) (elemFields S cty) [] (elemFields S cty) (by simp)
      henv hde hel hwf
    have hattrs := attrs_back S (head.2 ++ env) cty dflt extra a hok hlen hd hextra
    simp only [List.length_nil] at hkids
    simp only [marshalNode, parseElem]
    rw [hty, hkids]
    simp only [norm]
    congr 2
    · exact kids_back S tr (elemFields S cty) k hwf
    · by_cases hk : keepsText S cty = true <;> simp [hk]

theorem rt_fields (S : Schema) (tr : String → String) (h : rtTableB S = true) :
    ∀ (kss : List (List Node)) (env : List (Nat × Nat)) (efs pre fs : List FField),
      efs = pre ++ fs → EnvOk S env → pairwiseNoClash efs = true → (∀ f ∈ efs, ElemOk S f) →
      wtFields S fs kss = true →
      parseKids S env efs (marshalFields S tr fs kss) = some (tagFrom pre.length (normFields S tr fs kss))
  | [], env, efs, pre, fs, _, _, _, _, _ => by
    cases fs <;> simp [marshalFields, normFields, tagFrom, parseKids]
  | ks :: kss, env, efs, pre, [], _, _, _, _, hwf => by simp [wtFields] at hwf
  | ks :: kss, env, efs, pre, f :: fs, he, henv, hd, hall, hwf => by
    simp only [wtFields, Bool.and_eq_true] at hwf
    obtain ⟨⟨_, hk⟩, hrest⟩ := hwf
    have hidx : efs[pre.length]? = some f := by simp [he]
    have h1 := rt_kids S tr h ks env efs pre.length f hidx henv hd hall hk
    have h2 := rt_fields S tr h kss env efs (pre ++ [f]) fs (by simp [he]) henv hd hall hrest
    simp only [List.length_append, List.length_cons, List.length_nil] at h2
    simp only [marshalFields, normFields, tagFrom, parseKids_append, h1, h2]

theorem rt_kids (S : Schema) (tr : String → String) (h : rtTableB S = true) :
    ∀ (cs : List Node) (env : List (Nat × Nat)) (efs : List FField) (i : Nat) (f : FField),
      efs[i]? = some f → EnvOk S env → pairwiseNoClash efs = true → (∀ f ∈ efs, ElemOk S f) →
      wtKids S f.f cs = true →
      parseKids S env efs (marshalKids S tr f.f cs) = some ((normKids S tr f.f cs).map (fun c => (i, c)))
  | [], env, efs, i, f, _, _, _, _, _ => by simp [marshalKids, normKids, parseKids]
  | .mk cty a k t :: cs, env, efs, i, f, hi, henv, hd, hall, hwt => by
    simp only [wtKids, Bool.and_eq_true] at hwt
    obtain ⟨⟨⟨hty, _⟩, hwn⟩, hrest⟩ := hwt
    obtain ⟨hns, hhead, hnv⟩ := hall f (List.mem_of_getElem? hi)
    obtain ⟨hx0, hxd, hfa, hia, hfi, _, _, _⟩ := table_facts S h
    have hc1 : f.f.ty = S.anExprTy → cty = S.formalTy ∨ cty = S.informalTy := by
      intro e; simpa [e] using hty
    have hc2 : ¬ f.f.ty = S.anExprTy → cty = f.f.ty := by
      intro e; simpa [e] using hty
    have hcne : cty ≠ S.anExprTy := by
      by_cases e : f.f.ty = S.anExprTy
      · rcases hc1 e with e' | e' <;> rw [e'] <;> assumption
      · rw [hc2 e]; exact e
    rw [marshalKids_cons S tr f.f cty a k t cs hnv (fun ⟨_, e⟩ => hcne e)]
    obtain ⟨hres, henv'⟩ := head_resolves S f.f env hhead henv
    have hnode := rt_node S tr h (.mk cty a k t) env (elemHead S f.f (invokedKind S f.f)) (kidExtra S f.f cty)
      (kidTrim S f.f cty) (kidDefaults S f.f) f.f.ty henv' hwn hcne
      (by
        simp only [Node.ty, Node.attrs, parseTy]
        by_cases e : f.f.ty = S.anExprTy
        · have hb : byDefaultRules S f.f = false := by
            cases hb : byDefaultRules S f.f
            · rfl
            · exact absurd ⟨hb, e⟩ hnv
          have hke : kidExtra S f.f cty = [typeAttr S cty] := by simp [kidExtra, hb, e]
          simp only [hke, isFormal_typeAttr S h _ henv' cty (hc1 e)]
          rcases hc1 e with e' | e'
          · simp [e, e']
          · have : ¬ S.informalTy = S.formalTy := fun x => hfi x.symm
            simp [e, e', this]
        · simp [e, hc2 e])
      (by
        simp only [Node.ty]
        unfold kidDefaults
        by_cases e : (byDefaultRules S f.f || f.f.ty == S.anExprTy) = true
        · simp [e]
        · right
          have e2 : ¬ f.f.ty = S.anExprTy := by
            intro x; simp [x] at e
          simp [e, hc2 e2])
      (by
        simp only [Node.ty]
        exact extra_inert S h _ f.f cty hc1)
    have htail := rt_kids S tr h cs env efs i f hi henv hd hall hrest
    simp only [marshalNode] at hnode ⊢
    have hfind := findField_of_distinct env
      (.elem (elemHead S f.f (invokedKind S f.f)).1 (elemHead S f.f (invokedKind S f.f)).2
        (kidExtra S f.f cty ++ encodeAttrs (kidDefaults S f.f) (attrFields S cty) a)
        (marshalFields S tr (elemFields S cty) k)
        (if keepsText S cty then (if kidTrim S f.f cty then tr t else t) else ""))
      efs i f 0 hd hi (by simp [Xml.name, elemHead_loc]) (by simpa [Xml.name, Xml.decls] using hres)
    simp only [Nat.zero_add] at hfind
    simp only [parseKids, hfind, hnode, htail, normKids, List.map_cons]
end

/-- **Round trip, trees of any size and depth, any table that passes the check.** -/
theorem roundtrip (S : Schema) (tr : String → String) (h : rtTableB S = true) (n : Node)
    (hwt : wellTypedB S n = true) (hroot : n.ty = S.rootTy) :
    parse S (marshal S tr n) = some (normRoot S tr n) := by
  obtain ⟨_, _, _, _, _, hr, _, _⟩ := table_facts S h
  unfold parse marshal normRoot
  apply rt_node S tr h n [] (⟨S.rootPrefix, S.rootLocal⟩, S.rootDecls) [] (trimsText S S.rootTy) [] S.rootTy
    (envOk_root S) hwt (by rw [hroot]; exact hr)
  · have : (S.rootTy == S.anExprTy) = false := by simpa using hr
    simp [parseTy, this, hroot]
  · exact Or.inl rfl
  · intro g _ rest; simp

end Bpmn.Model.Xml

namespace Bpmn.Model.Xml

/-! ## What `norm` is: the identity when nothing is trimmed and no default applies -/

theorem normAttrs_nil_id : ∀ (afs : List FField) (a : List (Option String)), a.length = afs.length →
    normAttrs [] afs a = a
  | [], [], _ => by simp [normAttrs]
  | [], _ :: _, h => by simp at h
  | _ :: _, [], h => by simp at h
  | f :: fs, v :: vs, h => by
    have h' : vs.length = fs.length := by simpa using h
    simp only [normAttrs, normAttrs_nil_id fs vs h']
    cases v <;> simp [applyDefault_nil]

mutual
theorem norm_id (S : Schema) (hd : ∀ ty, unmarshalDefaults S ty = []) :
    ∀ (n : Node) (b : Bool), wellTypedB S n = true → norm S id b n = n
  | .mk ty a k t, b, hwt => by
    simp only [wellTypedB, Bool.and_eq_true, beq_iff_eq, Bool.or_eq_true] at hwt
    obtain ⟨⟨hlen, hwf⟩, htext⟩ := hwt
    simp only [norm, hd ty, normAttrs_nil_id _ a hlen, normFields_id S hd k (elemFields S ty) hwf]
    congr 1
    rcases htext with hk | ht
    · simp [hk]
    · simp [ht]
theorem normFields_id (S : Schema) (hd : ∀ ty, unmarshalDefaults S ty = []) :
    ∀ (kss : List (List Node)) (fs : List FField), wtFields S fs kss = true → normFields S id fs kss = kss
  | [], fs, h => by cases fs <;> simp [normFields]
  | ks :: kss, [], h => by simp [wtFields] at h
  | ks :: kss, f :: fs, h => by
    simp only [wtFields, Bool.and_eq_true] at h
    simp [normFields, normKids_id S hd ks f.f h.1.2, normFields_id S hd kss fs h.2]
theorem normKids_id (S : Schema) (hd : ∀ ty, unmarshalDefaults S ty = []) :
    ∀ (cs : List Node) (f : Field), wtKids S f cs = true → normKids S id f cs = cs
  | [], f, _ => by simp [normKids]
  | .mk cty a k t :: cs, f, h => by
    simp only [wtKids, Bool.and_eq_true] at h
    simp [normKids, norm_id S hd (.mk cty a k t) _ h.1.2, normKids_id S hd cs f h.2]
end

/-- with nothing to trim and no defaults in the table the round trip returns the model itself -/
theorem roundtrip_exact (S : Schema) (h : rtTableB S = true) (hd : ∀ ty, unmarshalDefaults S ty = [])
    (n : Node) (hwt : wellTypedB S n = true) (hroot : n.ty = S.rootTy) :
    parse S (marshal S id n) = some n := by
  rw [roundtrip S id h n hwt hroot, normRoot, norm_id S hd n _ hwt]

/-- `norm` keeps the shape: same types, same number of children everywhere -/
inductive Shape where
  | mk (ty : Nat) (nattrs : Nat) (kids : List (List Shape))

mutual
def shape : Node → Shape
  | .mk ty attrs kids _ => .mk ty attrs.length (shapeFields kids)
def shapeFields : List (List Node) → List (List Shape)
  | [] => []
  | ks :: kss => shapeKids ks :: shapeFields kss
def shapeKids : List Node → List Shape
  | [] => []
  | c :: cs => shape c :: shapeKids cs
end

theorem normAttrs_length (d : List (Nat × String)) : ∀ (afs : List FField) (a : List (Option String)),
    a.length = afs.length → (normAttrs d afs a).length = a.length
  | [], [], _ => by simp [normAttrs]
  | [], _ :: _, h => by simp at h
  | _ :: _, [], h => by simp at h
  | f :: fs, v :: vs, h => by
    have h' : vs.length = fs.length := by simpa using h
    simp [normAttrs, normAttrs_length d fs vs h']

mutual
theorem norm_shape (S : Schema) (tr : String → String) :
    ∀ (n : Node) (b : Bool), wellTypedB S n = true → shape (norm S tr b n) = shape n
  | .mk ty a k t, b, hwt => by
    simp only [wellTypedB, Bool.and_eq_true, beq_iff_eq] at hwt
    obtain ⟨⟨hlen, hwf⟩, _⟩ := hwt
    simp [norm, shape, normAttrs_length _ _ a hlen, normFields_shape S tr k (elemFields S ty) hwf]
theorem normFields_shape (S : Schema) (tr : String → String) :
    ∀ (kss : List (List Node)) (fs : List FField), wtFields S fs kss = true →
      shapeFields (normFields S tr fs kss) = shapeFields kss
  | [], fs, h => by cases fs <;> simp [normFields, shapeFields]
  | ks :: kss, [], h => by simp [wtFields] at h
  | ks :: kss, f :: fs, h => by
    simp only [wtFields, Bool.and_eq_true] at h
    simp [normFields, shapeFields, normKids_shape S tr ks f.f h.1.2, normFields_shape S tr kss fs h.2]
theorem normKids_shape (S : Schema) (tr : String → String) :
    ∀ (cs : List Node) (f : Field), wtKids S f cs = true → shapeKids (normKids S tr f cs) = shapeKids cs
  | [], f, _ => by simp [normKids, shapeKids]
  | .mk cty a k t :: cs, f, h => by
    simp only [wtKids, Bool.and_eq_true] at h
    simp [normKids, shapeKids, norm_shape S tr (.mk cty a k t) _ h.1.2, normKids_shape S tr cs f h.2]
end

end Bpmn.Model.Xml
