import Bpmn.Model.Satisfier
/-! Helper lemmas for C14 (core Lean only). -/
namespace Bpmn.Model.Satisfier

theorem splitFirst_some {α : Type} {p : α → Bool} :
    ∀ {l l1 : List α} {y : α} {l2 : List α}, splitFirst p l = some (l1, y, l2) →
      l = l1 ++ y :: l2 ∧ p y = true ∧ ∀ x ∈ l1, p x = false := by
  intro l
  induction l with
  | nil => intro l1 y l2 h; simp [splitFirst] at h
  | cons x xs ih =>
    intro l1 y l2 h
    unfold splitFirst at h
    by_cases hp : p x = true
    · simp [hp] at h
      obtain ⟨rfl, rfl, rfl⟩ := h
      simp [hp]
    · simp [hp] at h
      cases hs : splitFirst p xs with
      | none => simp [hs] at h
      | some t =>
        obtain ⟨a, b, c⟩ := t
        simp [hs] at h
        obtain ⟨rfl, rfl, rfl⟩ := h
        obtain ⟨h1, h2, h3⟩ := ih hs
        refine ⟨by simp [h1], h2, ?_⟩
        intro z hz
        cases hz with
        | head => simpa using hp
        | tail _ hz => exact h3 z hz

theorem splitFirst_none {α : Type} {p : α → Bool} :
    ∀ {l : List α}, splitFirst p l = none → ∀ x ∈ l, p x = false := by
  intro l
  induction l with
  | nil => intro _ x hx; cases hx
  | cons x xs ih =>
    intro h z hz
    unfold splitFirst at h
    by_cases hp : p x = true
    · simp [hp] at h
    · simp [hp] at h
      cases hs : splitFirst p xs with
      | some t => obtain ⟨a, b, c⟩ := t; simp [hs] at h
      | none =>
        cases hz with
        | head => simpa using hp
        | tail _ hz => exact ih hs z hz

theorem swapRemove_perm (l1 l2 : List Chain) : (swapRemove l1 l2).Perm (l1 ++ l2) := by
  unfold swapRemove
  cases h : l2.getLast? with
  | none =>
    have : l2 = [] := by simpa using h
    simp [this]
  | some z =>
    have h2 : l2.dropLast ++ [z] = l2 := by
      obtain ⟨ys, rfl⟩ := List.getLast?_eq_some_iff.mp h
      simp
    have : (z :: l2.dropLast).Perm l2 := by
      have := (List.perm_append_comm (l₁ := [z]) (l₂ := l2.dropLast))
      simpa [h2] using this
    exact List.Perm.append_left l1 this

theorem has_set (c : Chain) (i k : Nat) (hi : i < c.length) :
    has (c.set i true) k = (has c k || decide (k = i)) := by
  unfold has
  by_cases hk : k = i
  · subst hk; simp [List.getD, hi]
  · have hk' : ¬ i = k := fun h => hk h.symm
    simp [List.getD, hk, hk', List.getElem?_set]

theorem has_fresh (len i k : Nat) (hi : i < len) : has (fresh len i) k = decide (k = i) := by
  unfold fresh
  rw [has_set _ _ _ (by simpa using hi)]
  have : has (List.replicate len false) k = false := by
    unfold has
    by_cases hk : k < len <;> simp [List.getD, List.getElem?_replicate, hk]
  simp [this]

theorem full_iff (c : Chain) : full c = true ↔ ∀ k, k < c.length → has c k = true := by
  unfold full has
  constructor
  · intro h k hk
    have := List.all_eq_true.mp h (c[k]) (List.getElem_mem hk)
    simp [List.getD, hk]; simpa using this
  · intro h
    apply List.all_eq_true.mpr
    intro b hb
    obtain ⟨k, hk, rfl⟩ := List.getElem_of_mem hb
    have := h k hk
    simpa [List.getD, hk] using this

theorem fresh_not_full (len i : Nat) (hi : i < len) (h2 : 2 ≤ len) : full (fresh len i) = false := by
  apply Bool.eq_false_iff.mpr
  intro hf
  have hlen : (fresh len i).length = len := by simp [fresh]
  rw [full_iff] at hf
  -- choose a bit other than i
  by_cases h0 : i = 0
  · have := hf 1 (by omega)
    rw [has_fresh _ _ _ hi] at this
    simp [h0] at this
  · have := hf 0 (by omega)
    rw [has_fresh _ _ _ hi] at this
    simp at this; omega

end Bpmn.Model.Satisfier

namespace Bpmn.Model.Satisfier

/-- events of a history only refer to existing definitions -/
def validEv (len : Nat) : Option Nat → Prop
  | none => True
  | some i => i < len

structure Inv (s : Sat) (h : List (Option Nat)) (f : Nat) : Prop where
  wf     : ∀ c ∈ s.chains, c.length = s.len ∧ full c = false
  common : s.chains ≠ [] → ∃ i, i < s.len ∧ ∀ c ∈ s.chains, has c i = true
  count  : ∀ k, k < s.len → matchCount h k = f + s.chains.countP (has · k)

theorem inv_init (len : Nat) (par : Bool) : Inv (Sat.init len par) [] 0 := by
  refine ⟨?_, ?_, ?_⟩ <;> simp [Sat.init, matchCount]

theorem matchCount_snoc (h : List (Option Nat)) (e : Option Nat) (k : Nat) :
    matchCount (h ++ [e]) k = matchCount h k + (if e = some k then 1 else 0) := by
  unfold matchCount
  rw [List.count_append]
  by_cases he : e = some k <;> simp [he, List.count_cons]

theorem satisfy_len (s : Sat) (e : Option Nat) : (satisfy s e).1.len = s.len ∧ (satisfy s e).1.par = s.par := by
  unfold satisfy
  cases e with
  | none => simp
  | some i =>
    simp only
    split
    · simp
    · split
      · split <;> simp
      · simp

theorem inv_step (s : Sat) (h : List (Option Nat)) (f : Nat) (e : Option Nat)
    (hpar : s.par = true) (h2 : 2 ≤ s.len) (hv : validEv s.len e) (inv : Inv s h f) :
    Inv (satisfy s e).1 (h ++ [e]) (f + (if (satisfy s e).2.1 then 1 else 0)) := by
  obtain ⟨wf, common, count⟩ := inv
  cases e with
  | none =>
    refine ⟨by simpa [satisfy] using wf, by simpa [satisfy] using common, ?_⟩
    intro k hk
    simp [satisfy, matchCount_snoc, count k hk]
  | some i =>
    have hi : i < s.len := hv
    have hne : ¬ (s.len = 1) := by omega
    unfold satisfy
    simp only [hpar, hne, Bool.not_true, Bool.false_or, beq_iff_eq, if_false]
    cases hs : splitFirst (fun c => !has c i) s.chains with
    | none =>
      have hall := splitFirst_none hs
      refine ⟨?_, ?_, ?_⟩
      · intro c hc
        simp only [List.mem_append, List.mem_singleton] at hc
        cases hc with
        | inl hc => exact wf c hc
        | inr hc => subst hc; exact ⟨by simp [fresh], fresh_not_full _ _ hi h2⟩
      · intro _
        refine ⟨i, hi, ?_⟩
        intro c hc
        simp only [List.mem_append, List.mem_singleton] at hc
        cases hc with
        | inl hc => simpa using hall c hc
        | inr hc => subst hc; simp [has_fresh _ _ _ hi]
      · intro k hk
        simp only [matchCount_snoc, count k hk, List.countP_append, List.countP_singleton,
          has_fresh _ _ _ hi]
        by_cases hki : k = i
        · subst hki; simp; omega
        · have : ¬ i = k := fun h => hki h.symm
          simp [hki, this]
    | some t =>
      obtain ⟨l1, c, l2⟩ := t
      obtain ⟨hl, hc, _⟩ := splitFirst_some hs
      have hci : has c i = false := by simpa using hc
      have hcmem : c ∈ s.chains := by rw [hl]; simp
      have hclen : c.length = s.len := (wf c hcmem).1
      have hset : ∀ k, has (c.set i true) k = (has c k || decide (k = i)) :=
        fun k => has_set c i k (by omega)
      simp only
      by_cases hfull : full (c.set i true) = true
      · simp only [hfull, if_true]
        have hperm := swapRemove_perm l1 l2
        refine ⟨?_, ?_, ?_⟩
        · intro d hd
          have : d ∈ l1 ++ l2 := hperm.mem_iff.mp hd
          apply wf d
          rw [hl]
          simp only [List.mem_append, List.mem_cons] at this ⊢
          cases this with
          | inl h => exact Or.inl h
          | inr h => exact Or.inr (Or.inr h)
        · intro _
          have hne' : s.chains ≠ [] := by rw [hl]; simp
          obtain ⟨i0, hi0, hall⟩ := common hne'
          refine ⟨i0, hi0, ?_⟩
          intro d hd
          have : d ∈ l1 ++ l2 := hperm.mem_iff.mp hd
          apply hall d
          rw [hl]
          simp only [List.mem_append, List.mem_cons] at this ⊢
          cases this with
          | inl h => exact Or.inl h
          | inr h => exact Or.inr (Or.inr h)
        · intro k hk
          have hfk : has (c.set i true) k = true :=
            (full_iff _).mp hfull k (by simpa [hclen] using hk)
          rw [hperm.countP_eq]
          have hcnt := count k hk
          rw [hl] at hcnt
          simp only [List.countP_append, List.countP_cons] at hcnt ⊢
          simp only [matchCount_snoc]
          by_cases hki : k = i
          · subst hki
            simp [hci] at hcnt
            simp; omega
          · have : ¬ i = k := fun h => hki h.symm
            have hck : has c k = true := by
              have := hset k; rw [hfk] at this; simpa [hki] using this.symm
            simp [hck] at hcnt
            simp [this]; omega
      · have hfull' : full (c.set i true) = false := by simpa using hfull
        simp only [hfull', Bool.false_eq_true, if_false]
        refine ⟨?_, ?_, ?_⟩
        · intro d hd
          simp only [List.mem_append, List.mem_cons] at hd
          rcases hd with hd | hd | hd
          · exact wf d (by rw [hl]; simp [hd])
          · subst hd; exact ⟨by simp [hclen], hfull'⟩
          · exact wf d (by rw [hl]; simp [hd])
        · intro _
          have hne' : s.chains ≠ [] := by rw [hl]; simp
          obtain ⟨i0, hi0, hall⟩ := common hne'
          refine ⟨i0, hi0, ?_⟩
          intro d hd
          simp only [List.mem_append, List.mem_cons] at hd
          rcases hd with hd | hd | hd
          · exact hall d (by rw [hl]; simp [hd])
          · subst hd; rw [hset]; simp [hall c hcmem]
          · exact hall d (by rw [hl]; simp [hd])
        · intro k hk
          have hcnt := count k hk
          rw [hl] at hcnt
          simp only [List.countP_append, List.countP_cons, matchCount_snoc, hset] at hcnt ⊢
          by_cases hki : k = i
          · subst hki
            simp [hci] at hcnt
            simp; omega
          · have : ¬ i = k := fun h => hki h.symm
            simp [hki, this]; omega

end Bpmn.Model.Satisfier
