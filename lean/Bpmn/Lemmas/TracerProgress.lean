import Bpmn.Lemmas.Tracer
/-! Bounded progress of the tracer model: every step of a goroutine that is inside the protocol decreases `mu`,
and a state with a call in flight always has such a step enabled (when `Unsubscribe` drains). Core Lean only. -/
namespace Bpmn.Model.Tracer

theorem sumTo_succ (n : Nat) (w : Nat → Nat) : sumTo (n + 1) w = sumTo n w + w n := by
  simp [sumTo, List.range_succ]

theorem sumTo_congr {n : Nat} {w w' : Nat → Nat} (h : ∀ j, j < n → w' j = w j) : sumTo n w' = sumTo n w := by
  induction n with
  | zero => rfl
  | succ n ih =>
    rw [sumTo_succ, sumTo_succ, ih (fun j hj => h j (by omega)), h n (by omega)]

/-- changing one summand -/
theorem sumTo_update {n c : Nat} {w w' : Nat → Nat} (hc : c < n) (h : ∀ j, j ≠ c → w' j = w j) :
    sumTo n w' + w c = sumTo n w + w' c := by
  induction n with
  | zero => omega
  | succ n ih =>
    rw [sumTo_succ, sumTo_succ]
    by_cases hcn : c = n
    · subst hcn
      rw [sumTo_congr (w := w) (w' := w') (fun j hj => h j (by omega))]
      omega
    · have := ih (by omega)
      rw [h n (fun e => hcn e.symm)]
      omega

theorem chanSum_upd (s : St) (c : Nat) (f : Chan → Chan) (g : Chan → Nat) (hc : c < s.nchan) :
    sumTo s.nchan (fun j => g ((s.upd c f).chan j)) + g (s.chan c) =
    sumTo s.nchan (fun j => g (s.chan j)) + g (f (s.chan c)) := by
  have := sumTo_update (n := s.nchan) (c := c) (w := fun j => g (s.chan j))
    (w' := fun j => g ((s.upd c f).chan j)) hc (by intro j hj; simp [hj])
  simpa using this

theorem Inv.lt_nchan {s : St} (h : Inv s) {c : Nat} (hc : (s.chan c).stat ≠ .absent) : c < s.nchan := by
  by_cases hlt : c < s.nchan
  · exact hlt
  · exact absurd (h.alloc c (by omega)) hc

theorem swapRemove_length (l : List Nat) (p : Nat) : (swapRemove l p).length = l.length - 1 := by
  simp [swapRemove]


/-- the two channel sums after one channel changed -/
theorem load_upd (s : St) (c : Nat) (f : Chan → Chan) (hc : c < s.nchan) :
    (s.upd c f).load + ((s.chan c).buf.length + (s.chan c).stat.weight) =
    s.load + ((f (s.chan c)).buf.length + (f (s.chan c)).stat.weight) :=
  chanSum_upd s c f (fun ch => ch.buf.length + ch.stat.weight) hc

theorem waiting_upd (s : St) (c : Nat) (f : Chan → Chan) (hc : c < s.nchan) :
    (s.upd c f).waiting + (if (s.chan c).stat = .subWait then 1 else 0) =
    s.waiting + (if (f (s.chan c)).stat = .subWait then 1 else 0) :=
  chanSum_upd s c f (fun ch => if ch.stat = .subWait then 1 else 0) hc

theorem waiting_upd_same (s : St) (c : Nat) (f : Chan → Chan)
    (hf : ((f (s.chan c)).stat = .subWait ↔ (s.chan c).stat = .subWait)) :
    (s.upd c f).waiting = s.waiting := by
  unfold St.waiting
  apply sumTo_congr
  intro j _
  by_cases hj : j = c
  · subst hj; simp [hf]
  · simp [hj]

theorem listed_not_absent {st : CStat} (h : st.listed = true) : st ≠ .absent := by
  cases st <;> simp [CStat.listed] at h ⊢

theorem pushRem_idle {s : St} (h : s.pc = .idle) : s.pushRem = 0 := by unfold St.pushRem; rw [h]
theorem pushRem_ack {s : St} {c : Nat} (h : s.pc = .ackUnsub c) : s.pushRem = 0 := by unfold St.pushRem; rw [h]
theorem pushRem_push {s : St} {x : Msg} {i : Nat} (h : s.pc = .push x i) : s.pushRem = s.subs.length - i := by
  unfold St.pushRem; rw [h]

/-- how `mu` is compared -/
theorem mu_lt {s s' : St} (hp : s'.pending = s.pending)
    (hw : s'.subs.length + s'.waiting ≤ s.subs.length + s.waiting)
    (hr : 2 * s'.pushRem + s'.load < 2 * s.pushRem + s.load) : s'.mu < s.mu := by
  unfold St.mu St.smax
  rw [hp]
  have := Nat.mul_le_mul_left s.pending.length (show 1 + 2 * (s'.subs.length + s'.waiting) ≤
    1 + 2 * (s.subs.length + s.waiting) by omega)
  omega

theorem deliver_facts {s : St} (h : Inv s) {x : Msg} {i d : Nat} (hpc : s.pc = .push x i)
    (hd : s.subs[i]? = some d) :
    (s.deliver d x i).waiting = s.waiting ∧ (s.deliver d x i).load = s.load + 1 ∧
    (s.deliver d x i).pushRem + 1 = s.pushRem := by
  obtain ⟨hi, _⟩ := h.pcPush x i hpc
  have hdm : d ∈ s.subs := List.mem_of_getElem? hd
  have hdn : d < s.nchan := h.lt_nchan (listed_not_absent ((h.listed d).mp hdm))
  refine ⟨?_, ?_, ?_⟩
  · unfold St.deliver St.waiting
    simp only [advance_nchan, advance_chan, upd_nchan]
    exact waiting_upd_same s d _ (by simp)
  · unfold St.deliver St.load
    simp only [advance_nchan, advance_chan, upd_nchan]
    have := load_upd s d (fun ch => { ch with buf := ch.buf ++ [x] }) hdn
    simp only [List.length_append, List.length_cons, List.length_nil] at this
    unfold St.load at this
    simp only [upd_nchan] at this
    omega
  · rw [pushRem_push hpc]
    by_cases hlt : i + 1 < s.subs.length
    · have : (s.deliver d x i).pc = .push x (i + 1) := by
        unfold St.deliver; rw [advance_pc]; simp [hlt]
      rw [pushRem_push this]
      have : (s.deliver d x i).subs = s.subs := (same_deliver s d x i).2.2.2.2.2
      rw [this]; omega
    · have : (s.deliver d x i).pc = .idle := by
        unfold St.deliver; rw [advance_pc]; simp [hlt]
      rw [pushRem_idle this]; omega

theorem mu_deliver {s : St} (h : Inv s) {x : Msg} {i d : Nat} (hpc : s.pc = .push x i)
    (hd : s.subs[i]? = some d) : (s.deliver d x i).mu + 1 = s.mu := by
  obtain ⟨hw, hl, hr⟩ := deliver_facts h hpc hd
  have hp : (s.deliver d x i).pending = s.pending := (same_deliver s d x i).2.1
  have hs : (s.deliver d x i).subs = s.subs := (same_deliver s d x i).2.2.2.2.2
  unfold St.mu St.smax
  rw [hw, hl, hp, hs]
  omega

theorem mu_take {s s' : St} (h : Inv s) {c : Nat} {drain : Bool} (ht : s.take c drain = some s') :
    s'.mu + 1 = s.mu := by
  unfold St.take at ht
  cases hb : (s.chan c).buf with
  | nil => rw [hb] at ht; cases ht
  | cons m t =>
    rw [hb] at ht
    simp only [Option.some.injEq] at ht
    subst ht
    have hcf : (s.chan c).stat ≠ .absent := by
      intro e
      have := h.fresh c (by rw [e]; rfl)
      simp [Chan.total, hb] at this
    have hcn := h.lt_nchan hcf
    have hw := waiting_upd_same s c (fun ch => if drain then { ch with buf := t, drained := ch.drained ++ [m] }
        else { ch with buf := t, recvd := ch.recvd ++ [m] }) (by cases drain <;> simp)
    have hl := load_upd s c (fun ch => if drain then { ch with buf := t, drained := ch.drained ++ [m] }
        else { ch with buf := t, recvd := ch.recvd ++ [m] }) hcn
    have e1 : (if drain then ({ (s.chan c) with buf := t, drained := (s.chan c).drained ++ [m] } : Chan)
        else { (s.chan c) with buf := t, recvd := (s.chan c).recvd ++ [m] }).buf.length = t.length := by
      cases drain <;> rfl
    have e2 : (if drain then ({ (s.chan c) with buf := t, drained := (s.chan c).drained ++ [m] } : Chan)
        else { (s.chan c) with buf := t, recvd := (s.chan c).recvd ++ [m] }).stat = (s.chan c).stat := by
      cases drain <;> rfl
    rw [e1, e2, hb] at hl
    simp only [List.length_cons] at hl
    unfold St.mu St.smax St.pushRem
    rw [hw]
    simp only [upd_pending, upd_subs, upd_pc]
    omega

theorem mu_read {s s' : St} (h : Inv s) {c : Nat} {drain : Bool} (hr : s.read c drain = some s') :
    s'.mu < s.mu := by
  unfold St.read at hr
  split at hr
  · next s1 h1 => cases hr; have := mu_take h h1; omega
  · split at hr
    · next x i ho =>
      obtain ⟨hpc, hd⟩ := offering_spec ho
      have h1 := inv_deliver h hpc hd
      have := mu_deliver h hpc hd
      have := mu_take h1 hr
      omega
    · cases hr

theorem waiting_congr {s s' : St} (h1 : s'.chan = s.chan) (h2 : s'.nchan = s.nchan) : s'.waiting = s.waiting := by
  unfold St.waiting; rw [h1, h2]
theorem load_congr {s s' : St} (h1 : s'.chan = s.chan) (h2 : s'.nchan = s.nchan) : s'.load = s.load := by
  unfold St.load; rw [h1, h2]

theorem mu_takeTrace {s : St} (hpc : s.pc = .idle) {k : Nat} {x : Msg} (hx : s.pending[k]? = some x) :
    (s.takeTrace k x).mu < s.mu := by
  obtain ⟨hk, _⟩ := List.getElem?_eq_some_iff.mp hx
  have hrem : (s.takeTrace k x).pushRem ≤ s.subs.length := by
    by_cases he : s.subs.isEmpty = true
    · rw [pushRem_idle (by simp [St.takeTrace, he])]; omega
    · rw [pushRem_push (x := x) (i := 0) (by simp [St.takeTrace, he])]; simp [St.takeTrace]
  have h0 := pushRem_idle hpc
  obtain ⟨p, hp⟩ : ∃ p, s.pending.length = p + 1 := ⟨s.pending.length - 1, by omega⟩
  have hlen : (s.takeTrace k x).pending.length = p := by
    simp only [St.takeTrace, List.length_eraseIdx, hk, if_true]; omega
  have hw : (s.takeTrace k x).waiting = s.waiting := waiting_congr rfl rfl
  have hl : (s.takeTrace k x).load = s.load := load_congr rfl rfl
  have hs : (s.takeTrace k x).subs = s.subs := rfl
  unfold St.mu St.smax
  rw [hlen, hw, hl, hs, hp, h0]
  have hK := Nat.add_mul p 1 (1 + 2 * (s.subs.length + s.waiting))
  rw [Nat.one_mul] at hK
  omega

theorem mu_acceptSub {s : St} (h : Inv s) (hpc : s.pc = .idle) {c : Nat} (hst : (s.chan c).stat = .subWait) :
    (s.acceptSub c).mu < s.mu := by
  have hcn := h.lt_nchan (by rw [hst]; simp)
  have hw := waiting_upd s c (fun ch => { ch with stat := .subAcked, start := s.log.length }) hcn
  have hl := load_upd s c (fun ch => { ch with stat := .subAcked, start := s.log.length }) hcn
  simp only [hst, if_true, CStat.weight] at hw hl
  simp at hw
  have hw' : (s.acceptSub c).waiting = (s.upd c (fun ch => { ch with stat := .subAcked, start := s.log.length })).waiting :=
    waiting_congr rfl rfl
  have hl' : (s.acceptSub c).load = (s.upd c (fun ch => { ch with stat := .subAcked, start := s.log.length })).load :=
    load_congr rfl rfl
  have hs : (s.acceptSub c).subs.length = s.subs.length + 1 := by simp [St.acceptSub]
  have hr : (s.acceptSub c).pushRem = 0 := pushRem_idle hpc
  refine mu_lt rfl ?_ ?_
  · rw [hs, hw']; omega
  · rw [hr, hl', pushRem_idle hpc]; omega

theorem mu_removeSub {s : St} (h : Inv s) (hpc : s.pc = .idle) {c : Nat} (hst : (s.chan c).stat = .unsubOffer) :
    (s.removeSub c).mu < s.mu := by
  have hcn := h.lt_nchan (by rw [hst]; simp)
  have hw := waiting_upd_same s c (fun ch => { ch with stat := .unsubWaitOk, stop := some s.log.length })
    (by simp [hst])
  have hl := load_upd s c (fun ch => { ch with stat := .unsubWaitOk, stop := some s.log.length }) hcn
  simp only [hst, CStat.weight] at hl
  have hw' : (s.removeSub c).waiting = (s.upd c (fun ch => { ch with stat := .unsubWaitOk, stop := some s.log.length })).waiting :=
    waiting_congr rfl rfl
  have hl' : (s.removeSub c).load = (s.upd c (fun ch => { ch with stat := .unsubWaitOk, stop := some s.log.length })).load :=
    load_congr rfl rfl
  have hs : (s.removeSub c).subs.length = s.subs.length - 1 := by simp [St.removeSub, swapRemove_length]
  have hr : (s.removeSub c).pushRem = 0 := pushRem_ack (c := c) rfl
  refine mu_lt rfl ?_ ?_
  · rw [hs, hw', hw]; omega
  · rw [hr, hl', pushRem_idle hpc]; omega

theorem mu_finishUnsub {s : St} (h : Inv s) {c : Nat} (hpc : s.pc = .ackUnsub c)
    (hst : (s.chan c).stat = .unsubWaitOk) : (s.finishUnsub c).mu < s.mu := by
  have hcn := h.lt_nchan (by rw [hst]; simp)
  have hw := waiting_upd_same s c (fun ch => { ch with stat := .done }) (by simp [hst])
  have hl := load_upd s c (fun ch => { ch with stat := .done }) hcn
  simp only [hst, CStat.weight] at hl
  have hw' : (s.finishUnsub c).waiting = (s.upd c (fun ch => { ch with stat := .done })).waiting := waiting_congr rfl rfl
  have hl' : (s.finishUnsub c).load = (s.upd c (fun ch => { ch with stat := .done })).load := load_congr rfl rfl
  have hs : (s.finishUnsub c).subs = s.subs := rfl
  have hr : (s.finishUnsub c).pushRem = 0 := pushRem_idle rfl
  refine mu_lt rfl ?_ ?_
  · rw [hs, hw', hw]; exact Nat.le_refl _
  · rw [hr, hl', pushRem_ack hpc]; omega

theorem mu_subReturn {s : St} (h : Inv s) {c : Nat} (hst : (s.chan c).stat = .subAcked) :
    (s.upd c (fun ch => { ch with stat := .active })).mu < s.mu := by
  have hcn := h.lt_nchan (by rw [hst]; simp)
  have hw := waiting_upd_same s c (fun ch => { ch with stat := .active }) (by simp [hst])
  have hl := load_upd s c (fun ch => { ch with stat := .active }) hcn
  simp only [hst, CStat.weight] at hl
  have hr : (s.upd c (fun ch => { ch with stat := .active })).pushRem = s.pushRem := rfl
  refine mu_lt rfl ?_ ?_
  · rw [hw]; exact Nat.le_refl _
  · rw [hr]; omega

theorem mu_step {cfg : Cfg} {s s' : St} {a : Act} (h : Inv s) (ha : a.isEnv = false)
    (hs : step cfg s a = some s') : s'.mu < s.mu := by
  cases a with
  | callSub cap => cases ha
  | callUnsub c => cases ha
  | callSend sd => cases ha
  | recvTrace k =>
    simp only [step] at hs
    split at hs
    · next x hpc hx => cases hs; exact mu_takeTrace hpc hx
    · cases hs
  | recvSub c =>
    simp only [step] at hs
    split at hs
    · next hpc hst => cases hs; exact mu_acceptSub h hpc hst
    · cases hs
  | recvUnsub c =>
    simp only [step] at hs
    split at hs
    · next hpc hst =>
      have hmem : c ∈ s.subs := by rw [h.listed, hst]; rfl
      simp only [hmem, if_true, Option.some.injEq] at hs
      subst hs
      exact mu_removeSub h hpc hst
    · cases hs
  | push =>
    simp only [step] at hs
    split at hs
    · next x i hpc =>
      split at hs
      · next d hd =>
        split at hs
        · cases hs; have := mu_deliver h hpc hd; omega
        · cases hs
      · cases hs
    · cases hs
  | consume c =>
    simp only [step] at hs
    split at hs
    · exact mu_read h hs
    · cases hs
  | drain c =>
    simp only [step] at hs
    split at hs
    · exact mu_read h hs
    · cases hs
  | subReturn c =>
    simp only [step] at hs
    split at hs
    · next hst => cases hs; exact mu_subReturn h hst
    · cases hs
  | takeOk c =>
    simp only [step] at hs
    split at hs
    · next d hpc hst =>
      split at hs
      · next e => subst e; cases hs; exact mu_finishUnsub h hpc hst
      · cases hs
    · cases hs


/-! ## no deadlock -/

theorem read_isSome_of_offering {s : St} {c : Nat} {x : Msg} {i : Nat} (drain : Bool)
    (ho : s.offering c = some (x, i)) : (s.read c drain).isSome = true := by
  unfold St.read
  cases ht : s.take c drain with
  | some s1 => rfl
  | none =>
    simp only [ho]
    have hb : (s.chan c).buf = [] := by
      unfold St.take at ht
      cases hb : (s.chan c).buf with
      | nil => rfl
      | cons m t => rw [hb] at ht; cases ht
    unfold St.take St.deliver
    simp [hb]

theorem offering_of {s : St} {x : Msg} {i d : Nat} (hpc : s.pc = .push x i) (hd : s.subs[i]? = some d) :
    s.offering d = some (x, i) := by
  unfold St.offering; rw [hpc]; simp [hd]

/-- With a draining `Unsubscribe`: whenever a call is in flight (or the broadcaster is in its range loop), some
goroutine that is already inside the protocol can take a step. -/
theorem no_deadlock {cfg : Cfg} (hdr : cfg.unsubDrains = true) {s : St} (h : Inv s) (hb : s.Busy) :
    ∃ a, a.isEnv = false ∧ (step cfg s a).isSome = true := by
  cases hpc : s.pc with
  | idle =>
    rcases hb with hp | hp | ⟨c, hc⟩
    · cases hpe : s.pending with
      | nil => exact absurd hpe hp
      | cons x t =>
        refine ⟨.recvTrace 0, rfl, ?_⟩
        simp [step, hpc, hpe]
    · exact absurd hpc hp
    · cases hst : (s.chan c).stat with
      | absent => rw [hst] at hc; exact absurd rfl hc
      | active => rw [hst] at hc; exact absurd rfl hc
      | done => rw [hst] at hc; exact absurd rfl hc
      | subWait => exact ⟨.recvSub c, rfl, by simp [step, hpc, hst]⟩
      | subAcked => exact ⟨.subReturn c, rfl, by simp [step, hst]⟩
      | unsubOffer =>
        refine ⟨.recvUnsub c, rfl, ?_⟩
        simp only [step, hpc, hst]
        split <;> rfl
      | unsubWaitOk =>
        have := (h.ack c).mp hst
        rw [hpc] at this; cases this
  | push x i =>
    obtain ⟨hi, _⟩ := h.pcPush x i hpc
    have hd : s.subs[i]? = some s.subs[i] := List.getElem?_eq_getElem hi
    have ho := offering_of hpc hd
    have hl := (h.listed s.subs[i]).mp (List.getElem_mem hi)
    cases hst : (s.chan s.subs[i]).stat with
    | absent => rw [hst] at hl; cases hl
    | subWait => rw [hst] at hl; cases hl
    | unsubWaitOk => rw [hst] at hl; cases hl
    | done => rw [hst] at hl; cases hl
    | subAcked => exact ⟨.subReturn s.subs[i], rfl, by simp [step, hst]⟩
    | active =>
      refine ⟨.consume s.subs[i], rfl, ?_⟩
      simp only [step, hst]
      exact read_isSome_of_offering false ho
    | unsubOffer =>
      refine ⟨.drain s.subs[i], rfl, ?_⟩
      simp only [step, hst, hdr]
      simp only [Bool.true_and, beq_self_eq_true, Bool.true_or, if_true]
      exact read_isSome_of_offering true ho
  | ackUnsub c =>
    have hst := (h.ack c).mpr hpc
    refine ⟨.takeOk c, rfl, ?_⟩
    simp [step, hpc, hst]

/-! ## runs of the goroutines inside the protocol -/

theorem step_sys_misuse {cfg : Cfg} {s s' : St} {a : Act} (ha : a.isEnv = false) (hs : step cfg s a = some s') :
    s'.misuse = s.misuse := by
  cases a with
  | callSub cap => cases ha
  | callUnsub c => cases ha
  | callSend sd => cases ha
  | recvTrace k =>
    simp only [step] at hs
    split at hs
    · cases hs; rfl
    · cases hs
  | recvSub c =>
    simp only [step] at hs
    split at hs
    · cases hs; rfl
    · cases hs
  | recvUnsub c =>
    simp only [step] at hs
    split at hs
    · split at hs
      · cases hs; rfl
      · cases hs; rfl
    · cases hs
  | push =>
    simp only [step] at hs
    split at hs
    · split at hs
      · split at hs
        · cases hs; exact (same_deliver _ _ _ _).2.2.2.1
        · cases hs
      · cases hs
    · cases hs
  | consume c =>
    simp only [step] at hs
    split at hs
    · exact (same_read hs).2.2.2.1
    · cases hs
  | drain c =>
    simp only [step] at hs
    split at hs
    · exact (same_read hs).2.2.2.1
    · cases hs
  | subReturn c =>
    simp only [step] at hs
    split at hs
    · cases hs; rfl
    · cases hs
  | takeOk c =>
    simp only [step] at hs
    split at hs
    · split at hs
      · cases hs; rfl
      · cases hs
    · cases hs

/-- a run in which every scheduled action is enabled ends in the state `run` computes -/
theorem inv_allEnabled {cfg : Cfg} : ∀ (acts : List Act) (s : St), Inv s → s.misuse = false →
    (∀ a ∈ acts, a.isEnv = false) → allEnabled cfg s acts →
    Inv (run cfg s acts) ∧ (run cfg s acts).misuse = false ∧ (run cfg s acts).mu + acts.length ≤ s.mu := by
  intro acts
  induction acts with
  | nil => intro s h hm _ _; exact ⟨h, hm, by simp [run]⟩
  | cons a l ih =>
    intro s h hm hsys hen
    obtain ⟨s', hs, hl⟩ := hen
    have ha : a.isEnv = false := hsys a (by simp)
    have hm' : s'.misuse = false := by rw [step_sys_misuse ha hs]; exact hm
    have h' := inv_step h hs hm'
    have hmu := mu_step h ha hs
    have hrun : run cfg s (a :: l) = run cfg s' l := by
      show run cfg (step' cfg s a) l = _
      unfold step'; rw [hs]; rfl
    rw [hrun]
    obtain ⟨i1, i2, i3⟩ := ih s' h' hm' (fun b hb => hsys b (by simp [hb])) hl
    refine ⟨i1, i2, ?_⟩
    simp only [List.length_cons]
    omega

/-- from every state satisfying the invariant there is a run of at most `mu` steps of the goroutines inside the
protocol after which no call is in flight -/
theorem completes {cfg : Cfg} (hdr : cfg.unsubDrains = true) : ∀ (n : Nat) (s : St), s.mu ≤ n → Inv s →
    s.misuse = false →
    ∃ acts, (∀ a ∈ acts, a.isEnv = false) ∧ allEnabled cfg s acts ∧ ¬ (run cfg s acts).Busy := by
  intro n
  induction n with
  | zero =>
    intro s hn h hm
    refine ⟨[], by simp, trivial, ?_⟩
    intro hb
    obtain ⟨a, ha, hs⟩ := no_deadlock (cfg := cfg) hdr h hb
    obtain ⟨s', hs'⟩ := Option.isSome_iff_exists.mp hs
    have := mu_step h ha hs'
    omega
  | succ n ih =>
    intro s hn h hm
    by_cases hb : s.Busy
    · obtain ⟨a, ha, hs⟩ := no_deadlock (cfg := cfg) hdr h hb
      obtain ⟨s', hs'⟩ := Option.isSome_iff_exists.mp hs
      have hmu := mu_step h ha hs'
      have hm' : s'.misuse = false := by rw [step_sys_misuse ha hs']; exact hm
      obtain ⟨acts, h1, h2, h3⟩ := ih s' (by omega) (inv_step h hs' hm') hm'
      refine ⟨a :: acts, ?_, ⟨s', hs', h2⟩, ?_⟩
      · intro b hb'
        rcases List.mem_cons.mp hb' with e | e
        · rw [e]; exact ha
        · exact h1 b e
      · have hrun : run cfg s (a :: acts) = run cfg s' acts := by
          show run cfg (step' cfg s a) acts = _
          unfold step'; rw [hs']; rfl
        rw [hrun]; exact h3
    · exact ⟨[], by simp, trivial, hb⟩

end Bpmn.Model.Tracer
