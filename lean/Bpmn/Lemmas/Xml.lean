import Bpmn.Model.Xml
/-! Helper lemmas for C15: one-level facts about the decoder's dispatch, for every table. -/
namespace Bpmn.Model.Xml

theorem noClash_of_mem {g : FField} {fs : List FField} {f : FField}
    (h : fs.all (fun x => !keyClash g.f x.f) = true) (hf : f ∈ fs) : keyClash g.f f.f = false := by
  have := List.all_eq_true.mp h f hf
  simpa using this

/-- a field whose tag cannot be confused with `f`'s does not match the element written for `f` -/
theorem nameMatches_false_of_noClash {g f : Field} (h : keyClash g f = false) :
    nameMatches g (some f.ns) f.name = false := by
  unfold keyClash at h
  unfold nameMatches
  by_cases hn : g.name = f.name
  · simp [hn] at h ⊢
    obtain ⟨h1, h3⟩ := h
    exact ⟨h1.1, fun h' => h3 h'.symm⟩
  · simp [hn]

theorem nameMatches_self (f : Field) : nameMatches f (some f.ns) f.name = true := by
  simp [nameMatches]

theorem findField_of_distinct (env : List (Nat × Nat)) (x : Xml) :
    ∀ (efs : List FField) (i : Nat) (f : FField) (k : Nat),
      pairwiseNoClash efs = true → efs[i]? = some f → x.name.loc = f.f.name →
      resolveElem (x.decls ++ env) x.name = some f.f.ns →
      findField env x efs k = some (k + i, f.f) := by
  intro efs
  induction efs with
  | nil => intro i f k _ hi; simp at hi
  | cons g rest ih =>
    intro i f k hd hi hname hres
    simp only [pairwiseNoClash, Bool.and_eq_true] at hd
    obtain ⟨hg, hrest⟩ := hd
    cases i with
    | zero =>
      simp at hi
      subst hi
      simp [findField, hres, hname, nameMatches_self]
    | succ j =>
      simp at hi
      have hmem : f ∈ rest := List.mem_of_getElem? hi
      have hnc := noClash_of_mem hg hmem
      have hnm := nameMatches_false_of_noClash hnc
      have := ih j f (k + 1) hrest hi hname hres
      simp [findField, hres, hname, hnm, this]
      omega

/-- an attribute written for another (distinguishable, un-namespaced) field is not picked up -/
theorem findAttr_skip (env : List (Nat × Nat)) (g : Field) (n : Nat) (v : String)
    (rest : List (QN × String)) (hne : g.name ≠ n) :
    findAttr env g ((⟨0, n⟩, v) :: rest) = findAttr env g rest := by
  simp only [findAttr]
  cases findAttr env g rest with
  | some w => rfl
  | none => simp [nameMatches, hne]

theorem findAttr_encode_none (env : List (Nat × Nat)) (d : List (Nat × String)) (g : Field) :
    ∀ (fs : List FField) (vs : List (Option String)),
      (∀ f ∈ fs, f.f.name ≠ g.name) → findAttr env g (encodeAttrs d fs vs) = none := by
  intro fs
  induction fs with
  | nil => intro vs _; cases vs <;> simp [encodeAttrs, findAttr]
  | cons f rest ih =>
    intro vs h
    have hrest : ∀ f' ∈ rest, f'.f.name ≠ g.name := fun f' hf' => h f' (by simp [hf'])
    have hf : g.name ≠ f.f.name := fun e => h f (by simp) e.symm
    cases vs with
    | nil => simp [encodeAttrs, findAttr]
    | cons v vs =>
      cases v with
      | none => simpa [encodeAttrs] using ih vs hrest
      | some x =>
        simp only [encodeAttrs]
        rw [findAttr_skip env g f.f.name _ _ hf]
        exact ih vs hrest

theorem name_ne_of_noClash {f g : FField} (hf : f.f.ns = 0) (h : keyClash f.f g.f = false) :
    f.f.name ≠ g.f.name := by
  intro e
  simp [keyClash, e, hf] at h

theorem findAttr_encodeAttrs (env : List (Nat × Nat)) (d : List (Nat × String)) :
    ∀ (afs : List FField) (vals : List (Option String)), vals.length = afs.length →
      pairwiseNoClash afs = true → (∀ f ∈ afs, f.f.ns = 0) →
      afs.map (fun f => findAttr env f.f (encodeAttrs d afs vals)) = normAttrs d afs vals := by
  intro afs
  induction afs with
  | nil => intro vals _ _ _; cases vals <;> simp [normAttrs]
  | cons f rest ih =>
    intro vals hlen hd hns
    cases vals with
    | nil => simp at hlen
    | cons v vs =>
      simp only [pairwiseNoClash, Bool.and_eq_true] at hd
      obtain ⟨hf, hrest⟩ := hd
      have hlen' : vs.length = rest.length := by simpa using hlen
      have hns' : ∀ f' ∈ rest, f'.f.ns = 0 := fun f' h' => hns f' (by simp [h'])
      have hf0 : f.f.ns = 0 := hns f (by simp)
      have hne : ∀ g ∈ rest, f.f.name ≠ g.f.name := fun g hg =>
        name_ne_of_noClash hf0 (noClash_of_mem hf hg)
      have hnone : findAttr env f.f (encodeAttrs d rest vs) = none :=
        findAttr_encode_none env d f.f rest vs (fun g hg e => hne g hg e.symm)
      have ihr := ih vs hlen' hrest hns'
      cases v with
      | none =>
        simp only [List.map_cons, encodeAttrs, normAttrs, Option.map_none]
        rw [hnone, ihr]
      | some x =>
        simp only [List.map_cons, encodeAttrs, normAttrs, Option.map_some]
        congr 1
        · simp [findAttr, hnone, nameMatches, resolveAttr, hf0]
        · rw [← ihr]
          apply List.map_congr_left
          intro g hg
          exact findAttr_skip env g.f f.f.name _ _ (fun e => hne g hg e.symm)

end Bpmn.Model.Xml

namespace Bpmn.Model.Xml

/-! What marshalling stores back is idempotent and touches text only (trees of any size). -/

mutual
theorem stored_idem (S : Schema) (tr : String → String) (h : ∀ s, tr (tr s) = tr s) :
    ∀ n : Node, stored S tr (stored S tr n) = stored S tr n
  | .mk ty attrs kids text => by
    simp only [stored, storedFields_idem S tr h kids]
    by_cases ht : trimsText S ty = true <;> simp [ht, h]
theorem storedFields_idem (S : Schema) (tr : String → String) (h : ∀ s, tr (tr s) = tr s) :
    ∀ kss : List (List Node), storedFields S tr (storedFields S tr kss) = storedFields S tr kss
  | [] => by simp [storedFields]
  | ks :: kss => by simp [storedFields, storedKids_idem S tr h ks, storedFields_idem S tr h kss]
theorem storedKids_idem (S : Schema) (tr : String → String) (h : ∀ s, tr (tr s) = tr s) :
    ∀ ks : List Node, storedKids S tr (storedKids S tr ks) = storedKids S tr ks
  | [] => by simp [storedKids]
  | c :: cs => by simp [storedKids, stored_idem S tr h c, storedKids_idem S tr h cs]
end

/-- the skeleton of a node: everything but the text -/
inductive Skel where
  | mk (ty : Nat) (attrs : List (Option String)) (kids : List (List Skel))

mutual
def skel : Node → Skel
  | .mk ty attrs kids _ => .mk ty attrs (skelFields kids)
def skelFields : List (List Node) → List (List Skel)
  | [] => []
  | ks :: kss => skelKids ks :: skelFields kss
def skelKids : List Node → List Skel
  | [] => []
  | c :: cs => skel c :: skelKids cs
end

mutual
theorem stored_skel (S : Schema) (tr : String → String) : ∀ n : Node, skel (stored S tr n) = skel n
  | .mk ty attrs kids text => by simp [stored, skel, storedFields_skel S tr kids]
theorem storedFields_skel (S : Schema) (tr : String → String) :
    ∀ kss : List (List Node), skelFields (storedFields S tr kss) = skelFields kss
  | [] => by simp [storedFields, skelFields]
  | ks :: kss => by simp [storedFields, skelFields, storedKids_skel S tr ks, storedFields_skel S tr kss]
theorem storedKids_skel (S : Schema) (tr : String → String) :
    ∀ ks : List Node, skelKids (storedKids S tr ks) = skelKids ks
  | [] => by simp [storedKids, skelKids]
  | c :: cs => by simp [storedKids, skelKids, stored_skel S tr c, storedKids_skel S tr cs]
end

/-- the decoder handles the children of an element one after the other (building block of the
tree-level round trip: the children written for one field, then those of the next) -/
theorem parseKids_append (S : Schema) (env : List (Nat × Nat)) (efs : List FField) :
    ∀ (a b : List Xml), parseKids S env efs (a ++ b) =
      match parseKids S env efs a, parseKids S env efs b with
      | some l1, some l2 => some (l1 ++ l2)
      | _, _ => none := by
  intro a
  induction a with
  | nil => intro b; simp [parseKids]; cases parseKids S env efs b <;> rfl
  | cons x xs ih =>
    intro b
    cases x with
    | elem n dc ats ks tx =>
      simp only [List.cons_append, parseKids]
      cases hf : findField env (.elem n dc ats ks tx) efs 0 with
      | none => simp [ih b]
      | some p =>
        obtain ⟨i, f⟩ := p
        simp only [ih b]
        cases parseElem S env f.ty (.elem n dc ats ks tx) <;>
          cases parseKids S env efs xs <;> cases parseKids S env efs b <;> simp


end Bpmn.Model.Xml
