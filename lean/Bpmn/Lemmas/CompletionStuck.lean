import Bpmn.Lemmas.CompletionSafety
/-! Three ways in which the faithful model gets stuck for ever (the negative side of C02's liveness dichotomy). Each is
an invariant of ALL continuations: once a reachable state satisfies it, every state reached from it under any schedule
and any further history of calls satisfies it too. -/
namespace Bpmn.Model.Completion

/-! ## (D3) the only monitor subscribed too late: it can no longer count `n` start traces -/

structure Starved (P : Params) (s : St) : Prop where
  prog : s.prog = []
  mons : ∃ m, s.mons = [m] ∧ m.pc = .counting ∧ m.count + starts m.buf + pendFor s 0 + (P.n - s.sent) < P.n
  lock : s.lock = some (.mon 0)
  noCease : Trace.cease ∉ s.log
  waits : ∀ x ∈ s.waits, x.helper = .wantLock ∧ x.caller ≠ .gotTrue ∧ x.sig = false

theorem starved_step {P : Params} {s : St} (I : Inv P s) (h : Starved P s) (c : Choice) : Starved P (step P s c) := by
  obtain ⟨hp, ⟨m, hm, hpc, hlt⟩, hl, hnc, hw⟩ := h
  have hsn : s.sent ≤ P.n := by have := I.cnt.c1; have := I.cnt.c2; have := I.cnt.c3; omega
  cases c with
  | starter => simp only [step, stepStarter, hp]; exact ⟨hp, ⟨m, hm, hpc, hlt⟩, hl, hnc, hw⟩
  | mon k =>
    cases k with
    | succ k => simp only [step, stepMon, hm]; simp; exact ⟨hp, ⟨m, hm, hpc, hlt⟩, hl, hnc, hw⟩
    | zero =>
      simp only [step, stepMon, hm]
      simp only [List.getElem?_cons_zero, hpc]
      have hne : ¬ m.count = P.n := by omega
      simp only [hne, if_false]
      split
      · exact ⟨hp, ⟨m, hm, hpc, hlt⟩, hl, hnc, hw⟩
      · next t r hb =>
        refine ⟨hp, ⟨{ m with buf := r, count := m.count + isStart t }, by simp [upd], hpc, ?_⟩, hl, hnc, hw⟩
        simp only [pendFor] at hlt ⊢
        rw [hb, starts_cons] at hlt
        omega
  | deliver =>
    simp only [step, stepDeliver]
    split
    · exact ⟨hp, ⟨m, hm, hpc, hlt⟩, hl, hnc, hw⟩
    · next t hpe =>
      refine ⟨hp, ⟨m, hm, hpc, ?_⟩, hl, hnc, hw⟩
      simp only [pendFor, hpe] at hlt ⊢
      cases t <;> simp_all
    · next t k ks hpe =>
      cases k with
      | succ k => simp [hm]; exact ⟨hp, ⟨m, hm, hpc, hlt⟩, hl, hnc, hw⟩
      | zero =>
        simp only [hm, List.getElem?_cons_zero]
        split
        · refine ⟨hp, ⟨{ m with buf := m.buf ++ [t] }, by simp [upd], hpc, ?_⟩, hl, hnc, hw⟩
          simp only [pendFor, hpe] at hlt
          simp only [pendFor]
          cases t <;> (split <;> simp_all [starts_append, isStart, List.count_cons]) <;> omega
        · exact ⟨hp, ⟨m, hm, hpc, hlt⟩, hl, hnc, hw⟩
  | helper w =>
    simp only [step, stepHelper]
    split
    · exact ⟨hp, ⟨m, hm, hpc, hlt⟩, hl, hnc, hw⟩
    · next x hx =>
      have := (hw x (List.mem_of_getElem? hx)).1
      simp only [this, hl]
      simp
      exact ⟨hp, ⟨m, hm, hpc, hlt⟩, hl, hnc, hw⟩
  | recv w =>
    simp only [step, stepRecv]
    split
    · exact ⟨hp, ⟨m, hm, hpc, hlt⟩, hl, hnc, hw⟩
    · next x hx =>
      have := (hw x (List.mem_of_getElem? hx)).2.2
      simp only [this]
      simp
      exact ⟨hp, ⟨m, hm, hpc, hlt⟩, hl, hnc, hw⟩
  | expire w =>
    simp only [step, stepExpire]
    split
    · exact ⟨hp, ⟨m, hm, hpc, hlt⟩, hl, hnc, hw⟩
    · next x hx =>
      split
      · refine ⟨hp, ⟨m, hm, hpc, by simpa [pendFor] using hlt⟩, hl, hnc, ?_⟩
        apply forall_mem_upd (p := fun x : Wait => x.helper = .wantLock ∧ x.caller ≠ .gotTrue ∧ x.sig = false) hw
        intro y hy
        have := hw y (List.mem_of_getElem? hy)
        exact ⟨this.1, by simp, this.2.2⟩
      · exact ⟨hp, ⟨m, hm, hpc, hlt⟩, hl, hnc, hw⟩
  | call =>
    simp only [step]
    refine ⟨hp, ⟨m, hm, hpc, by simpa [pendFor] using hlt⟩, hl, hnc, ?_⟩
    intro x hx
    simp at hx
    rcases hx with hx | rfl
    · exact hw x hx
    · simp
  | fire =>
    simp only [step]; split
    · exact ⟨hp, ⟨m, hm, hpc, by simpa [pendFor] using hlt⟩, hl, hnc, hw⟩
    · exact ⟨hp, ⟨m, hm, hpc, hlt⟩, hl, hnc, hw⟩
  | birth =>
    simp only [step]; split
    · exact ⟨hp, ⟨m, hm, hpc, by simpa [pendFor] using hlt⟩, hl, hnc, hw⟩
    · exact ⟨hp, ⟨m, hm, hpc, hlt⟩, hl, hnc, hw⟩
  | spawnStray =>
    simp only [step]; split
    · exact ⟨hp, ⟨m, hm, hpc, by simpa [pendFor] using hlt⟩, hl, hnc, hw⟩
    · exact ⟨hp, ⟨m, hm, hpc, hlt⟩, hl, hnc, hw⟩
  | death =>
    simp only [step]; split
    · exact ⟨hp, ⟨m, hm, hpc, by simpa [pendFor] using hlt⟩, hl, hnc, hw⟩
    · exact ⟨hp, ⟨m, hm, hpc, hlt⟩, hl, hnc, hw⟩
  | startTrace =>
    simp only [step]; split
    · next hc =>
      have hcnt : s.subs.count 0 ≤ 1 := by rw [I.mon.nodup.count]; split <;> omega
      have hsf := I.cnt.c1; have := I.cnt.c2; have := I.cnt.c3
      refine ⟨hp, ⟨m, hm, hpc, ?_⟩, hl, by simpa using hnc, hw⟩
      simp at hc
      simp only [pendFor, hc.2] at hlt
      simp only [pendFor, mkPending]
      split <;> simp_all <;> omega
    · exact ⟨hp, ⟨m, hm, hpc, hlt⟩, hl, hnc, hw⟩
  | other =>
    simp only [step]; split
    · next hc =>
      refine ⟨hp, ⟨m, hm, hpc, ?_⟩, hl, by simpa using hnc, hw⟩
      simp at hc
      simp only [pendFor, hc.2] at hlt
      simp only [pendFor, mkPending]
      split <;> simp_all
    · exact ⟨hp, ⟨m, hm, hpc, hlt⟩, hl, hnc, hw⟩
  | strayTrace =>
    simp only [step]; split
    · next hc =>
      refine ⟨hp, ⟨m, hm, hpc, ?_⟩, hl, by simpa using hnc, hw⟩
      simp at hc
      simp only [pendFor, hc.2] at hlt
      simp only [pendFor, mkPending]
      split <;> simp_all
    · exact ⟨hp, ⟨m, hm, hpc, hlt⟩, hl, hnc, hw⟩

theorem starved_run {P : Params} {s : St} (I : Inv P s) (h : Starved P s) (sched : List Choice) :
    Starved P (run P s sched) := by
  induction sched generalizing s with
  | nil => exact h
  | cons c cs ih => exact ih (inv_step I c) (starved_step I h c)

/-! ## (D2) an unbuffered signal: the helper of a call that has given up keeps the lock for ever -/

structure HelperStuck (P : Params) (s : St) (w : Nat) : Prop where
  cap : P.sigCap = 0
  lock : s.lock = some (.helper w)
  me : ∃ x, s.waits[w]? = some x ∧ x.helper = .holding ∧ x.caller ≠ .waiting
  sig : ∀ x ∈ s.waits, x.sig = false

/-- number of calls that have returned true -/
def trueCount (s : St) : Nat := s.waits.countP (fun x => x.caller == .gotTrue)

theorem helperStuck_step {P : Params} {s : St} {w : Nat} (I : Inv P s) (h : HelperStuck P s w) (c : Choice) :
    HelperStuck P (step P s c) w ∧ trueCount (step P s c) = trueCount s := by
  obtain ⟨hcap, hl, ⟨x0, hx0, hh0, hc0⟩, hsig⟩ := h
  have frame : (step P s c).lock = s.lock → (step P s c).waits = s.waits →
      HelperStuck P (step P s c) w ∧ trueCount (step P s c) = trueCount s := fun e1 e2 =>
    ⟨⟨hcap, e1 ▸ hl, ⟨x0, e2 ▸ hx0, hh0, hc0⟩, e2 ▸ hsig⟩, by simp [trueCount, e2]⟩
  have keep : HelperStuck P s w ∧ trueCount s = trueCount s := ⟨⟨hcap, hl, ⟨x0, hx0, hh0, hc0⟩, hsig⟩, rfl⟩
  cases c with
  | starter =>
    apply frame
    · simp only [step, stepStarter]; repeat' split
      all_goals first | rfl | simp_all
    · simp only [step, stepStarter]; repeat' split
      all_goals rfl
  | mon k =>
    refine frame ?_ (stepMon_frame P s k).2.2.2.2.2
    simp only [step, stepMon]
    split
    · rfl
    · next m hm =>
      split
      · rfl
      · repeat' split
        all_goals rfl
      · repeat' split
        all_goals rfl
      · repeat' split
        all_goals rfl
      · repeat' split
        all_goals rfl
      · next hpc =>
        have := I.lock.mon k m hm (by simp [hpc, MPc.holds])
        rw [hl] at this; simp at this
      · rfl
  | deliver => exact frame (stepDeliver_frame P s).2.2.2.2.2.2.1 (stepDeliver_frame P s).2.2.2.2.2.1
  | fire => apply frame <;> (simp only [step]; split <;> rfl)
  | startTrace => apply frame <;> (simp only [step]; split <;> rfl)
  | other => apply frame <;> (simp only [step]; split <;> rfl)
  | strayTrace => apply frame <;> (simp only [step]; split <;> rfl)
  | birth => apply frame <;> (simp only [step]; split <;> rfl)
  | spawnStray => apply frame <;> (simp only [step]; split <;> rfl)
  | death => apply frame <;> (simp only [step]; split <;> rfl)
  | call =>
    simp only [step]
    refine ⟨⟨hcap, hl, ⟨x0, ?_, hh0, hc0⟩, ?_⟩, by simp [trueCount, List.countP_append]⟩
    · rw [List.getElem?_append]; obtain ⟨hlt, hget⟩ := List.getElem?_eq_some_iff.mp hx0; simp [hlt, hget]
    · intro x hx; simp at hx; rcases hx with hx | rfl
      · exact hsig x hx
      · rfl
  | helper j =>
    simp only [step, stepHelper]
    split
    · exact keep
    · next x hx =>
      split
      · simp only [hl]; simp; exact keep.1
      · next hpc =>
        have hj : j = w := by
          have := I.lock.helper j x hx hpc
          rw [hl] at this; simp at this; exact this.symm
        subst hj
        rw [hx0] at hx; cases hx
        simp only [hcap]
        simp [hc0]
        exact keep.1
      · exact keep
  | recv j =>
    simp only [step, stepRecv]
    split
    · exact keep
    · next x hx =>
      have := hsig x (List.mem_of_getElem? hx)
      simp [this]
      exact keep.1
  | expire j =>
    simp only [step, stepExpire]
    split
    · exact keep
    · next x hx =>
      split
      · next hcw =>
        refine ⟨⟨hcap, hl, ?_, ?_⟩, ?_⟩
        · by_cases e : j = w
          · subst e; rw [hx0] at hx; cases hx; exact absurd hcw hc0
          · exact ⟨x0, by simp only; rw [getElem?_upd_ne _ _ e]; exact hx0, hh0, hc0⟩
        · apply forall_mem_upd (p := fun x : Wait => x.sig = false) hsig
          intro y hy; exact hsig y (List.mem_of_getElem? hy)
        · simp only [trueCount]
          exact countP_upd_same' hx (by simp only [hcw]; decide)
      · exact keep

theorem helperStuck_run {P : Params} {s : St} {w : Nat} (I : Inv P s) (h : HelperStuck P s w) (sched : List Choice) :
    HelperStuck P (run P s sched) w ∧ trueCount (run P s sched) = trueCount s := by
  induction sched generalizing s with
  | nil => exact ⟨h, rfl⟩
  | cons c cs ih =>
    have h1 := helperStuck_step I h c
    have h2 := ih (inv_step I c) h1.1
    exact ⟨h2.1, h2.2.trans h1.2⟩

/-! ## (D4) a second monitor waits for the lock with an unread subscription: the broadcaster stalls on its full buffer -/

/-- monitor `j` holds the lock and has not emitted its cease trace; monitor `k` was subscribed by a later `StartWith`
which is blocked in `complete.Lock()`; the tracer is in the middle of a broadcast whose next receiver is `k`, and
`k`'s buffer is full -/
structure TracerStuck (P : Params) (s : St) (j k : Nat) : Prop where
  prog : s.prog.head? = some .lock
  pend : ∃ t ks, s.pending = some (t, k :: ks)
  full : ∃ m, s.mons[k]? = some m ∧ m.pc = .wantLock ∧ P.subBuf ≤ m.buf.length
  lock : s.lock = some (.mon j)
  holder : ∃ m, s.mons[j]? = some m ∧ (m.pc = .counting ∨ m.pc = .unsub ∨ m.pc = .wgwait ∨ m.pc = .ceasing)
  waits : ∀ x ∈ s.waits, x.helper = .wantLock ∧ x.caller ≠ .gotTrue ∧ x.sig = false

theorem tracerStuck_step {P : Params} {s : St} {j k : Nat} (I : Inv P s) (h : TracerStuck P s j k) (c : Choice) :
    TracerStuck P (step P s c) j k ∧ (step P s c).log = s.log := by
  obtain ⟨hp, ⟨t0, ks0, hpe⟩, ⟨mk, hmk, hkpc, hfull⟩, hl, ⟨mj, hmj, hjpc⟩, hw⟩ := h
  have keep : TracerStuck P s j k ∧ s.log = s.log :=
    ⟨⟨hp, ⟨t0, ks0, hpe⟩, ⟨mk, hmk, hkpc, hfull⟩, hl, ⟨mj, hmj, hjpc⟩, hw⟩, by first | rfl | trivial⟩
  have hjk : j ≠ k := by
    intro e; subst e; rw [hmk] at hmj; cases hmj
    rcases hjpc with h | h | h | h <;> simp [hkpc] at h
  have hpn : s.pending.isNone = false := by simp [hpe]
  cases c with
  | starter =>
    simp only [step, stepStarter]
    split
    · first | exact keep | exact ⟨keep.1, trivial⟩ | exact keep.1
    · next r hpr => simp [hpr] at hp
    · next r hpr => simp [hpr] at hp
    · simp only [hl]; simp; first | exact keep | exact ⟨keep.1, trivial⟩ | exact keep.1
  | mon i =>
    simp only [step, stepMon]
    split
    · first | exact keep | exact ⟨keep.1, trivial⟩ | exact keep.1
    · next m hm =>
      by_cases hij : i = j
      · subst hij
        rw [hmj] at hm; cases hm
        have hk' : ∀ f : Mon → Mon, (upd s.mons i f)[k]? = some mk := fun f => by
          rw [getElem?_upd_ne _ _ hjk]; exact hmk
        -- every branch keeps the holder inside {counting, unsub, wgwait, ceasing} and touches nothing else
        have mk' : ∀ (f : Mon → Mon), ((f mj).pc = .counting ∨ (f mj).pc = .unsub ∨ (f mj).pc = .wgwait ∨ (f mj).pc = .ceasing) →
            TracerStuck P { s with mons := upd s.mons i f } i k ∧ s.log = s.log := fun f hf =>
          ⟨⟨hp, ⟨t0, ks0, hpe⟩, ⟨mk, hk' f, hkpc, hfull⟩, hl, ⟨f mj, by simp [getElem?_upd_self, hmj], hf⟩, hw⟩, by first | rfl | trivial⟩
        split
        · first | exact keep | exact ⟨keep.1, trivial⟩ | exact keep.1
        · next hpc =>
          split
          · exact mk' _ (Or.inr (Or.inl rfl))
          · split
            · first | exact keep | exact ⟨keep.1, trivial⟩ | exact keep.1
            · exact mk' _ (Or.inl hpc)
        · next hpc =>
          simp only [hpn]
          simp only [Bool.false_eq_true, if_false]
          split
          · first | exact keep | exact ⟨keep.1, trivial⟩ | exact keep.1
          · exact mk' _ (Or.inr (Or.inl hpc))
        · split
          · exact mk' _ (Or.inr (Or.inr (Or.inr rfl)))
          · first | exact keep | exact ⟨keep.1, trivial⟩ | exact keep.1
        · simp only [hpn]; simp only [Bool.false_eq_true, if_false]; first | exact keep | exact ⟨keep.1, trivial⟩ | exact keep.1
        · next hpc => rcases hjpc with h | h | h | h <;> simp [hpc] at h
        · first | exact keep | exact ⟨keep.1, trivial⟩ | exact keep.1
      · -- any other monitor is `wantLock` or `done`: it holds no lock
        have hnh : m.pc.holds = false := by
          cases hh : m.pc.holds with
          | false => rfl
          | true =>
            have := I.lock.mon i m hm hh
            rw [hl] at this; simp at this; exact absurd this.symm hij
        cases hpc : m.pc <;> simp [hpc, MPc.holds] at hnh <;> simp only [] <;> first | exact keep | exact ⟨keep.1, trivial⟩ | exact keep.1
  | deliver =>
    simp only [step, stepDeliver, hpe, hmk]
    have : ¬ mk.buf.length < P.subBuf := by omega
    simp only [this, if_false]
    first | exact keep | exact ⟨keep.1, trivial⟩ | exact keep.1
  | helper w =>
    simp only [step, stepHelper]
    split
    · first | exact keep | exact ⟨keep.1, trivial⟩ | exact keep.1
    · next x hx =>
      have := (hw x (List.mem_of_getElem? hx)).1
      simp only [this, hl]; simp; first | exact keep | exact ⟨keep.1, trivial⟩ | exact keep.1
  | recv w =>
    simp only [step, stepRecv]
    split
    · first | exact keep | exact ⟨keep.1, trivial⟩ | exact keep.1
    · next x hx =>
      have := (hw x (List.mem_of_getElem? hx)).2.2
      simp only [this]; simp; first | exact keep | exact ⟨keep.1, trivial⟩ | exact keep.1
  | expire w =>
    simp only [step, stepExpire]
    split
    · first | exact keep | exact ⟨keep.1, trivial⟩ | exact keep.1
    · next x hx =>
      split
      · refine ⟨⟨hp, ⟨t0, ks0, hpe⟩, ⟨mk, hmk, hkpc, hfull⟩, hl, ⟨mj, hmj, hjpc⟩, ?_⟩, by first | rfl | trivial⟩
        apply forall_mem_upd (p := fun x : Wait => x.helper = .wantLock ∧ x.caller ≠ .gotTrue ∧ x.sig = false) hw
        intro y hy
        have := hw y (List.mem_of_getElem? hy)
        exact ⟨this.1, by simp, this.2.2⟩
      · first | exact keep | exact ⟨keep.1, trivial⟩ | exact keep.1
  | call =>
    simp only [step]
    refine ⟨⟨hp, ⟨t0, ks0, hpe⟩, ⟨mk, hmk, hkpc, hfull⟩, hl, ⟨mj, hmj, hjpc⟩, ?_⟩, by first | rfl | trivial⟩
    intro x hx; simp at hx
    rcases hx with hx | rfl
    · exact hw x hx
    · simp
  | fire =>
    simp only [step]; split
    · exact ⟨⟨hp, ⟨t0, ks0, hpe⟩, ⟨mk, hmk, hkpc, hfull⟩, hl, ⟨mj, hmj, hjpc⟩, hw⟩, by first | rfl | trivial⟩
    · first | exact keep | exact ⟨keep.1, trivial⟩ | exact keep.1
  | birth =>
    simp only [step]; split
    · exact ⟨⟨hp, ⟨t0, ks0, hpe⟩, ⟨mk, hmk, hkpc, hfull⟩, hl, ⟨mj, hmj, hjpc⟩, hw⟩, by first | rfl | trivial⟩
    · first | exact keep | exact ⟨keep.1, trivial⟩ | exact keep.1
  | spawnStray =>
    simp only [step]; split
    · exact ⟨⟨hp, ⟨t0, ks0, hpe⟩, ⟨mk, hmk, hkpc, hfull⟩, hl, ⟨mj, hmj, hjpc⟩, hw⟩, by first | rfl | trivial⟩
    · first | exact keep | exact ⟨keep.1, trivial⟩ | exact keep.1
  | death =>
    simp only [step]; split
    · exact ⟨⟨hp, ⟨t0, ks0, hpe⟩, ⟨mk, hmk, hkpc, hfull⟩, hl, ⟨mj, hmj, hjpc⟩, hw⟩, by first | rfl | trivial⟩
    · first | exact keep | exact ⟨keep.1, trivial⟩ | exact keep.1
  | startTrace => simp only [step, hpn]; simp; first | exact keep | exact ⟨keep.1, trivial⟩ | exact keep.1
  | other => simp only [step, hpn]; simp; first | exact keep | exact ⟨keep.1, trivial⟩ | exact keep.1
  | strayTrace => simp only [step, hpn]; simp; first | exact keep | exact ⟨keep.1, trivial⟩ | exact keep.1

theorem tracerStuck_run {P : Params} {s : St} {j k : Nat} (I : Inv P s) (h : TracerStuck P s j k) (sched : List Choice) :
    TracerStuck P (run P s sched) j k ∧ (run P s sched).log = s.log := by
  induction sched generalizing s with
  | nil => exact ⟨h, rfl⟩
  | cons c cs ih =>
    have h1 := tracerStuck_step I h c
    have h2 := ih (inv_step I c) h1.1
    exact ⟨h2.1, h2.2.trans h1.2⟩

/-! ## Executable checkers (so that a concrete reachable state is shown stuck by evaluation) -/

def starvedB (P : Params) (s : St) : Bool :=
  s.prog.isEmpty &&
  (match s.mons with
   | [m] => m.pc == .counting && decide (m.count + starts m.buf + pendFor s 0 + (P.n - s.sent) < P.n)
   | _ => false) &&
  s.lock == some (.mon 0) && !(s.log.contains .cease) &&
  s.waits.all (fun x => x.helper == .wantLock && x.caller != .gotTrue && !x.sig)

theorem starved_of_B {P : Params} {s : St} (h : starvedB P s = true) : Starved P s := by
  simp only [starvedB, Bool.and_eq_true] at h
  obtain ⟨⟨⟨⟨h1, h2⟩, h3⟩, h4⟩, h5⟩ := h
  refine ⟨by simpa using h1, ?_, by simpa using h3, by simpa using h4, ?_⟩
  · match hm : s.mons, h2 with
    | [m], h2 =>
      simp at h2
      exact ⟨m, rfl, h2.1, h2.2⟩
  · intro x hx
    have := List.all_eq_true.mp h5 x hx
    simp at this
    exact ⟨this.1.1, this.1.2, this.2⟩

def helperStuckB (P : Params) (s : St) (w : Nat) : Bool :=
  P.sigCap == 0 && s.lock == some (.helper w) &&
  (match s.waits[w]? with
   | some x => x.helper == .holding && x.caller != .waiting
   | none => false) &&
  s.waits.all (fun x => !x.sig)

theorem helperStuck_of_B {P : Params} {s : St} {w : Nat} (h : helperStuckB P s w = true) : HelperStuck P s w := by
  simp only [helperStuckB, Bool.and_eq_true] at h
  obtain ⟨⟨⟨h1, h2⟩, h3⟩, h4⟩ := h
  refine ⟨by simpa using h1, by simpa using h2, ?_, ?_⟩
  · match hx : s.waits[w]?, h3 with
    | some x, h3 => simp at h3; exact ⟨x, rfl, h3.1, h3.2⟩
  · intro x hx
    have := List.all_eq_true.mp h4 x hx
    simpa using this

def tracerStuckB (P : Params) (s : St) (j k : Nat) : Bool :=
  s.prog.head? == some .lock &&
  (match s.pending with
   | some (_, k' :: _) => k' == k
   | _ => false) &&
  (match s.mons[k]? with
   | some m => m.pc == .wantLock && decide (P.subBuf ≤ m.buf.length)
   | none => false) &&
  s.lock == some (.mon j) &&
  (match s.mons[j]? with
   | some m => m.pc == .counting || m.pc == .unsub || m.pc == .wgwait || m.pc == .ceasing
   | none => false) &&
  s.waits.all (fun x => x.helper == .wantLock && x.caller != .gotTrue && !x.sig)

theorem tracerStuck_of_B {P : Params} {s : St} {j k : Nat} (h : tracerStuckB P s j k = true) : TracerStuck P s j k := by
  simp only [tracerStuckB, Bool.and_eq_true] at h
  obtain ⟨⟨⟨⟨⟨h1, h2⟩, h3⟩, h4⟩, h5⟩, h6⟩ := h
  refine ⟨by simpa using h1, ?_, ?_, by simpa using h4, ?_, ?_⟩
  · match hp : s.pending, h2 with
    | some (t, k' :: ks), h2 => simp at h2; subst h2; exact ⟨t, ks, rfl⟩
  · match hm : s.mons[k]?, h3 with
    | some m, h3 => simp at h3; exact ⟨m, rfl, h3.1, h3.2⟩
  · match hm : s.mons[j]?, h5 with
    | some m, h5 =>
      simp at h5
      exact ⟨m, rfl, by rcases h5 with ((h | h) | h) | h <;> simp [h]⟩
  · intro x hx
    have := List.all_eq_true.mp h6 x hx
    simp at this
    exact ⟨this.1.1, this.1.2, this.2⟩

/-! ## Facts a schedule never looks at -/

def Choice.isHelper : Choice → Bool
  | .helper _ => true
  | _ => false

theorem step_sigCap (P : Params) (a : Nat) (s : St) (c : Choice) (h : c.isHelper = false) :
    step { P with sigCap := a } s c = step P s c := by
  cases c with
  | helper w => simp [Choice.isHelper] at h
  | _ => rfl

theorem run_sigCap (P : Params) (a : Nat) (s : St) (sched : List Choice) (h : ∀ c ∈ sched, c.isHelper = false) :
    run { P with sigCap := a } s sched = run P s sched := by
  induction sched generalizing s with
  | nil => rfl
  | cons c cs ih =>
    simp only [run, List.foldl_cons] at ih ⊢
    rw [step_sigCap P a s c (h c (by simp))]
    exact ih _ (fun c' hc' => h c' (by simp [hc']))

theorem step_subBuf (P : Params) (b : Nat) (s : St) (c : Choice) (h : c ≠ .deliver) :
    step { P with subBuf := b } s c = step P s c := by
  cases c with
  | deliver => exact absurd rfl h
  | _ => rfl

theorem run_subBuf (P : Params) (b : Nat) (s : St) (sched : List Choice) (h : ∀ c ∈ sched, c ≠ .deliver) :
    run { P with subBuf := b } s sched = run P s sched := by
  induction sched generalizing s with
  | nil => rfl
  | cons c cs ih =>
    simp only [run, List.foldl_cons] at ih ⊢
    rw [step_subBuf P b s c (h c (by simp))]
    exact ih _ (fun c' hc' => h c' (by simp [hc']))

end Bpmn.Model.Completion
