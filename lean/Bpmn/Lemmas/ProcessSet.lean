import Bpmn.Model.ProcessSet
/-!
Helper lemmas for C18. `Step` restates `next` as one rule per transition (with the guards as premises and the
successor state spelled out); `next_sound` shows that every transition of the executable model is one of these
rules, so that invariants are proved by `cases` on `Step`. Core Lean only.
-/
namespace Bpmn.Model.ProcessSet

/-! ## the transitions, one rule each -/

inductive Step (cfg : Cfg) (su : Setup) (s : State) : Choice → State → Prop where
  | saStart (str : List Ev) (rest : List (List Ev)) :
      s.panicked = false → s.toStart = str :: rest → s.saPending = none → cfg.addBeforeStart = false →
      Step cfg su s .saStart
        { s with members := s.members ++ [{ todo := str, subscribed := cfg.subBeforeStart }],
                 toStart := rest, saPending := some s.members.length }
  | saStartReg (str : List Ev) (rest : List (List Ev)) :
      s.panicked = false → s.toStart = str :: rest → s.saPending = none → cfg.addBeforeStart = true →
      Step cfg su s .saStart
        { s with members := s.members ++ [{ todo := str, subscribed := cfg.subBeforeStart, counted := true,
                                            lateJoin := decide (1 ≤ s.closes) }],
                 toStart := rest, wg := s.wg + 1, saPending := none }
  | saRegister (i : Nat) :
      s.panicked = false → s.saPending = some i →
      Step cfg su s .saRegister
        { s with members := regMember s.members i (decide (1 ≤ s.closes)), wg := s.wg + 1, saPending := none }
  | proc (i : Nat) (m : Member) :
      s.panicked = false → s.members[i]? = some m → m.ceased = false → m.blocked = none →
      Step cfg su s (.proc i) { s with members := s.members.set i m.emit, thrown := s.thrown ++ thrownBy m.nextTr }
  | subscribe (i : Nat) (m : Member) :
      s.panicked = false → s.members[i]? = some m → m.counted = true → m.subscribed = false →
      Step cfg su s (.subscribe i) { s with members := s.members.set i { m with subscribed := true } }
  | watchTau (i : Nat) (m : Member) (q : List Tr) :
      s.panicked = false → s.members[i]? = some m → m.counted = true → m.subscribed = true → m.finished = false →
      m.queue = .ev .tau :: q →
      Step cfg su s (.watcher i) { s with members := s.members.set i { m with queue := q } }
  | watchThrow (i : Nat) (m : Member) (id : Nat) (q : List Tr) :
      s.panicked = false → s.members[i]? = some m → m.counted = true → m.subscribed = true → m.finished = false →
      m.queue = .ev (.throw id) :: q →
      Step cfg su s (.watcher i) { s with members := s.members.set i { m with queue := q }, mch := s.mch ++ [id] }
  | watchListen (i : Nat) (m : Member) (c : Nat) (q : List Tr) :
      s.panicked = false → s.members[i]? = some m → m.counted = true → m.subscribed = true → m.finished = false →
      m.queue = .ev (.listen c) :: q →
      Step cfg su s (.watcher i)
        { s with members := s.members.set i { m with queue := q },
                 catches := (c, s.wakers.length) :: s.catches.filter (·.1 != c),
                 wakers := s.wakers ++ [{ c := c, member := i }],
                 wg := s.wg + 1 }
  | watchCease (i : Nat) (m : Member) (q : List Tr) :
      s.panicked = false → s.members[i]? = some m → m.counted = true → m.subscribed = true → m.finished = false →
      m.queue = .cease :: q →
      Step cfg su s (.watcher i)
        { s with members := s.members.set i { m with queue := q, finished := true }, wg := s.wg - 1 }
  | runInst (id : Nat) (rest : List Nat) (str : List Ev) :
      s.panicked = false → s.runAlive = true → s.runPending = none → s.mch = id :: rest → route su s id = .inst str →
      cfg.instAddBeforeStart = false →
      Step cfg su s .runMsg
        { s with mch := rest, instantiated := s.instantiated ++ [id],
                 members := s.members ++ [{ todo := str, origin := some id, subscribed := cfg.instSubBeforeStart }],
                 runPending := some s.members.length }
  | runInstReg (id : Nat) (rest : List Nat) (str : List Ev) :
      s.panicked = false → s.runAlive = true → s.runPending = none → s.mch = id :: rest → route su s id = .inst str →
      cfg.instAddBeforeStart = true →
      Step cfg su s .runMsg
        { s with mch := rest, instantiated := s.instantiated ++ [id],
                 members := s.members ++ [{ todo := str, origin := some id, subscribed := cfg.instSubBeforeStart,
                                            counted := true, lateJoin := decide (1 ≤ s.closes) }],
                 wg := s.wg + 1, runPending := none }
  | runWake (id : Nat) (rest : List Nat) (c k : Nat) (wk : Waker) :
      s.panicked = false → s.runAlive = true → s.runPending = none → s.mch = id :: rest → route su s id = .wake c k wk →
      Step cfg su s .runMsg
        { s with mch := rest, woken := s.woken ++ [id],
                 catches := s.catches.filter (·.1 != c),
                 wakers := s.wakers.set k { wk with ready := true } }
  | runDrop (id : Nat) (rest : List Nat) :
      s.panicked = false → s.runAlive = true → s.runPending = none → s.mch = id :: rest → route su s id = .drop →
      Step cfg su s .runMsg { s with mch := rest, dropped := s.dropped ++ [id] }
  | runRegister (i : Nat) :
      s.panicked = false → s.runPending = some i →
      Step cfg su s .runRegister
        { s with members := regMember s.members i (decide (1 ≤ s.closes)), wg := s.wg + 1, runPending := none }
  | runDone :
      s.panicked = false → s.runAlive = true → s.runPending = none → 1 ≤ s.closes →
      Step cfg su s .runDone { s with runAlive := false, ceaseSet := s.ceaseSet + 1 }
  | waker (k : Nat) (wk : Waker) :
      s.panicked = false → s.wakers[k]? = some wk → wk.ready = true → wk.done = false →
      Step cfg su s (.waker k)
        { s with wakers := s.wakers.set k { wk with done := true }, wg := s.wg - 1,
                 members := unblock s.members wk.member wk.c }
  | waitCall :
      s.panicked = false →
      Step cfg su s .waitCall
        { s with waits := s.waits ++ [{}], earlyWait := s.earlyWait || !s.toStart.isEmpty || s.saPending.isSome }
  | closeFirst (w : Nat) (wt : Wait) :
      s.panicked = false → s.waits[w]? = some wt → wt.closerDone = false → s.wg = 0 → s.closes = 0 →
      Step cfg su s (.closer w)
        { s with waits := s.waits.set w { wt with closerDone := true }, closes := 1, closedInFlight := s.inFlight }
  | closeGuarded (w : Nat) (wt : Wait) :
      s.panicked = false → s.waits[w]? = some wt → wt.closerDone = false → s.wg = 0 → s.closes ≠ 0 → cfg.closeOnce = true →
      Step cfg su s (.closer w) { s with waits := s.waits.set w { wt with closerDone := true } }
  | closeAgain (w : Nat) (wt : Wait) :
      s.panicked = false → s.waits[w]? = some wt → wt.closerDone = false → s.wg = 0 → s.closes ≠ 0 → cfg.closeOnce = false →
      Step cfg su s (.closer w) { s with waits := s.waits.set w { wt with closerDone := true }, panicked := true }
  | waitReturn (w : Nat) (wt : Wait) :
      s.panicked = false → s.waits[w]? = some wt → wt.result = none → 1 ≤ s.closes →
      Step cfg su s (.waitReturn w) { s with waits := s.waits.set w { wt with result := some true } }
  | waitTimeout (w : Nat) (wt : Wait) :
      s.panicked = false → s.waits[w]? = some wt → wt.result = none →
      Step cfg su s (.waitTimeout w) { s with waits := s.waits.set w { wt with result := some false } }

theorem next_sound {cfg : Cfg} {su : Setup} {s s' : State} {c : Choice} (h : next cfg su s c = some s') :
    Step cfg su s c s' := by
  unfold next at h
  split at h
  · cases h
  next hp =>
  have hp : s.panicked = false := by simpa using hp
  cases c with
  | saStart =>
    simp only at h
    split at h
    · next str rest h1 h2 =>
      cases h
      cases hf : cfg.addBeforeStart with
      | false =>
        have := Step.saStart (cfg := cfg) (su := su) (s := s) str rest hp h1 h2 hf
        simpa [Member.fresh, hf] using this
      | true =>
        have := Step.saStartReg (cfg := cfg) (su := su) (s := s) str rest hp h1 h2 hf
        simpa [Member.fresh, hf] using this
    · cases h
  | saRegister =>
    simp only at h
    split at h
    · next i h1 => cases h; exact .saRegister i hp h1
    · cases h
  | proc i =>
    simp only at h
    split at h
    · next m hm =>
      split at h
      · cases h
      · next hg =>
        cases h
        simp only [Bool.or_eq_true, not_or, Bool.not_eq_true] at hg
        exact .proc i m hp hm hg.1 (by simpa using hg.2)
    · cases h
  | subscribe i =>
    simp only at h
    split at h
    · next m hm =>
      split at h
      · next hg =>
        cases h
        simp only [Bool.and_eq_true, Bool.not_eq_eq_eq_not, Bool.not_true] at hg
        exact .subscribe i m hp hm hg.1 hg.2
      · cases h
    · cases h
  | watcher i =>
    simp only at h
    split at h
    · next m hm =>
      split at h
      · next hg =>
        simp only [Bool.and_eq_true, Bool.not_eq_eq_eq_not, Bool.not_true] at hg
        obtain ⟨⟨h1, h2⟩, h3⟩ := hg
        split at h
        · cases h
        · next q hq => cases h; exact .watchTau i m q hp hm h1 h2 h3 hq
        · next id q hq => cases h; exact .watchThrow i m id q hp hm h1 h2 h3 hq
        · next c q hq => cases h; exact .watchListen i m c q hp hm h1 h2 h3 hq
        · next q hq => cases h; exact .watchCease i m q hp hm h1 h2 h3 hq
      · cases h
    · cases h
  | runMsg =>
    simp only at h
    split at h
    · next hg =>
      simp only [Bool.and_eq_true, Option.isNone_iff_eq_none] at hg
      split at h
      · cases h
      · next id rest hm =>
        split at h
        · next str hr =>
          cases h
          cases hf : cfg.instAddBeforeStart with
          | false =>
            have := Step.runInst (cfg := cfg) (su := su) (s := s) id rest str hp hg.1 hg.2 hm hr hf
            simpa [Member.fresh, hf] using this
          | true =>
            have := Step.runInstReg (cfg := cfg) (su := su) (s := s) id rest str hp hg.1 hg.2 hm hr hf
            simpa [Member.fresh, hf] using this
        · next c k wk hr => cases h; exact .runWake id rest c k wk hp hg.1 hg.2 hm hr
        · next hr => cases h; exact .runDrop id rest hp hg.1 hg.2 hm hr
    · cases h
  | runRegister =>
    simp only at h
    split at h
    · next i h1 => cases h; exact .runRegister i hp h1
    · cases h
  | runDone =>
    simp only at h
    split at h
    · next hg =>
      cases h
      simp only [Bool.and_eq_true, Option.isNone_iff_eq_none, decide_eq_true_eq] at hg
      exact .runDone hp hg.1.1 hg.1.2 hg.2
    · cases h
  | waker k =>
    simp only at h
    split at h
    · next wk hk =>
      split at h
      · next hg =>
        cases h
        simp only [Bool.and_eq_true, Bool.not_eq_eq_eq_not, Bool.not_true] at hg
        exact .waker k wk hp hk hg.1 hg.2
      · cases h
    · cases h
  | waitCall => simp only at h; cases h; exact .waitCall hp
  | closer w =>
    simp only at h
    split at h
    · next wt hw =>
      split at h
      · next hg =>
        simp only [Bool.and_eq_true, Bool.not_eq_eq_eq_not, Bool.not_true, beq_iff_eq] at hg
        split at h
        · next hc => cases h; exact .closeFirst w wt hp hw hg.1 hg.2 (by simpa using hc)
        · next hc =>
          have hc' : s.closes ≠ 0 := by simpa using hc
          split at h
          · next ho => cases h; exact .closeGuarded w wt hp hw hg.1 hg.2 hc' ho
          · next ho => cases h; exact .closeAgain w wt hp hw hg.1 hg.2 hc' (by simpa using ho)
      · cases h
    · cases h
  | waitReturn w =>
    simp only at h
    split at h
    · next wt hw =>
      split at h
      · next hg =>
        cases h
        simp only [Bool.and_eq_true, Option.isNone_iff_eq_none, decide_eq_true_eq] at hg
        exact .waitReturn w wt hp hw hg.1 hg.2
      · cases h
    · cases h
  | waitTimeout w =>
    simp only at h
    split at h
    · next wt hw =>
      split at h
      · next hg => cases h; exact .waitTimeout w wt hp hw (by simpa using hg)
      · cases h
    · cases h

/-- invariants are proved rule by rule -/
theorem reach_induction {cfg : Cfg} {su : Setup} (P : State → Prop) (h0 : P (init su))
    (hs : ∀ s c s', Reach cfg su s → P s → Step cfg su s c s' → P s') :
    ∀ s, Reach cfg su s → P s := by
  intro s h
  induction h with
  | init => exact h0
  | step c hr ih =>
    unfold step
    cases hn : next cfg su _ c with
    | none => simpa using ih
    | some s' => simpa using hs _ c s' hr ih (next_sound hn)

theorem reach_runFrom {cfg : Cfg} {su : Setup} (sch : List Choice) :
    ∀ s, Reach cfg su s → Reach cfg su (runFrom cfg su s sch) := by
  induction sch with
  | nil => intro s h; simpa [runFrom] using h
  | cons c cs ih => intro s h; simpa [runFrom] using ih _ (Reach.step c h)

theorem reach_exec {cfg : Cfg} {su : Setup} (sch : List Choice) : Reach cfg su (exec cfg su sch) :=
  reach_runFrom sch _ Reach.init

/-! ## sums over lists -/

def total {α : Type} (f : α → Nat) : List α → Nat
  | [] => 0
  | a :: l => f a + total f l

theorem total_append {α : Type} (f : α → Nat) (l₁ l₂ : List α) : total f (l₁ ++ l₂) = total f l₁ + total f l₂ := by
  induction l₁ with
  | nil => simp [total]
  | cons a l ih => simp [total, ih]; omega

theorem total_set {α : Type} (f : α → Nat) : ∀ (l : List α) (i : Nat) (a b : α), l[i]? = some a →
    total f (l.set i b) + f a = total f l + f b := by
  intro l
  induction l with
  | nil => intro i a b h; simp at h
  | cons x l ih =>
    intro i a b h
    cases i with
    | zero => simp at h; subst h; simp [total]; omega
    | succ i =>
      simp at h
      have := ih i a b h
      simp [total]; omega

theorem total_eq_zero {α : Type} (f : α → Nat) (l : List α) : total f l = 0 → ∀ a ∈ l, f a = 0 := by
  induction l with
  | nil => intro _ a ha; cases ha
  | cons x l ih =>
    intro h a ha
    simp [total] at h
    cases ha with
    | head => exact h.1
    | tail _ hm => exact ih h.2 a hm

theorem total_zero_of_forall {α : Type} (f : α → Nat) (l : List α) (h : ∀ a ∈ l, f a = 0) : total f l = 0 := by
  induction l with
  | nil => rfl
  | cons x l ih =>
    simp only [total]
    rw [h x (by simp), ih (fun a ha => h a (by simp [ha]))]

theorem total_pos_of_mem {α : Type} (f : α → Nat) (l : List α) (a : α) (ha : a ∈ l) : f a ≤ total f l := by
  induction l with
  | nil => cases ha
  | cons x l ih =>
    cases ha with
    | head => simp [total]
    | tail _ hm => have := ih hm; simp [total]; omega

theorem mem_of_getElem?' {α : Type} {l : List α} {i : Nat} {a : α} (h : l[i]? = some a) : a ∈ l :=
  List.mem_of_getElem? h

/-! ## simple counters -/

theorem panic_needs_unguarded {cfg : Cfg} {su : Setup} :
    ∀ s, Reach cfg su s → s.panicked = true → cfg.closeOnce = false := by
  apply reach_induction
  · simp [init]
  · intro s c s' _ ih h
    cases h <;> simp_all

theorem cease_set_counter {cfg : Cfg} {su : Setup} :
    ∀ s, Reach cfg su s → s.ceaseSet + (if s.runAlive then 1 else 0) = 1 := by
  apply reach_induction
  · simp [init]
  · intro s c s' _ ih h
    cases h <;> simp_all

theorem closes_le_one {cfg : Cfg} {su : Setup} : ∀ s, Reach cfg su s → s.closes ≤ 1 := by
  apply reach_induction
  · simp [init]
  · intro s c s' _ ih h
    cases h <;> simp_all

/-- a call returns `true`, and a closer has run, only after `done` was closed -/
theorem waits_need_close {cfg : Cfg} {su : Setup} :
    ∀ s, Reach cfg su s → ∀ wt ∈ s.waits, (wt.result = some true ∨ wt.closerDone = true) → 1 ≤ s.closes := by
  apply reach_induction
  · simp [init]
  · intro s c s' _ ih h
    cases h
    case waitCall =>
      intro wt hwt hc
      simp only [List.mem_append, List.mem_singleton] at hwt
      rcases hwt with hwt | rfl
      · exact ih wt hwt hc
      · simp at hc
    case closeFirst => intro _ _ _; simp
    case closeGuarded w wt0 hp hw hd hwg hc ho =>
      intro wt hwt _
      simp only at hwt ⊢; omega
    case closeAgain w wt0 hp hw hd hwg hc ho =>
      intro wt hwt _
      simp only at hwt ⊢; omega
    case waitReturn w wt0 hp hw hr hc => intro _ _ _; exact hc
    case waitTimeout w wt0 hp hw hr =>
      intro wt hwt hc
      rcases List.mem_or_eq_of_mem_set hwt with hm | rfl
      · exact ih wt hm hc
      · have hc' : wt0.closerDone = true := by simpa using hc
        exact ih wt0 (List.mem_of_getElem? hw) (Or.inr hc')
    all_goals exact ih

/-! ## structure: the member `StartAll` / `run` has started and not yet registered -/

def PendingOK (s : State) : Prop :=
  (∀ i, s.saPending = some i → ∃ m, s.members[i]? = some m ∧ m.counted = false ∧ m.finished = false) ∧
  (∀ i, s.runPending = some i → ∃ m, s.members[i]? = some m ∧ m.counted = false ∧ m.finished = false) ∧
  (∀ i, s.saPending = some i → s.runPending ≠ some i)

theorem regMember_length (ms : List Member) (i : Nat) (b : Bool) : (regMember ms i b).length = ms.length := by
  unfold regMember; split <;> simp

theorem regMember_getElem? (ms : List Member) (i j : Nat) (b : Bool) :
    (regMember ms i b)[j]? =
      if j = i then (ms[i]?).map (fun m => { m with counted := true, lateJoin := b }) else ms[j]? := by
  unfold regMember
  split
  · next m hm =>
    rw [List.getElem?_set]
    by_cases hji : j = i
    · subst hji
      have : j < ms.length := by
        rcases Nat.lt_or_ge j ms.length with h | h
        · exact h
        · rw [List.getElem?_eq_none h] at hm; cases hm
      rw [hm]; simp [this]
    · have : ¬ i = j := fun h => hji h.symm
      simp [hji, this]
  · next hm =>
    by_cases hji : j = i
    · subst hji; simp [hm]
    · simp [hji]

theorem unblock_length (ms : List Member) (i c : Nat) : (unblock ms i c).length = ms.length := by
  unfold unblock; split
  · split <;> simp
  · rfl

theorem unblock_getElem? (ms : List Member) (i c j : Nat) :
    (unblock ms i c)[j]? =
      (ms[j]?).map (fun m => if j = i ∧ m.blocked = some c then { m with blocked := none } else m) := by
  unfold unblock
  split
  · next m hm =>
    have hi : i < ms.length := by
      rcases Nat.lt_or_ge i ms.length with h | h
      · exact h
      · rw [List.getElem?_eq_none h] at hm; cases hm
    split
    · next hb =>
      rw [List.getElem?_set]
      by_cases hji : j = i
      · subst hji; rw [hm]; simp [hi, hb]
      · have : ¬ i = j := fun h => hji h.symm
        simp [hji, this]
    · next hb =>
      by_cases hji : j = i
      · subst hji; rw [hm]; simp [hb]
      · simp [hji]
  · next hm =>
    by_cases hji : j = i
    · subst hji; simp [hm]
    · simp [hji]

/-- a member update at a valid index -/
theorem getElem?_set_of {α : Type} {l : List α} {i : Nat} {a : α} (h : l[i]? = some a) (b : α) (j : Nat) :
    (l.set i b)[j]? = if j = i then some b else l[j]? := by
  have hi : i < l.length := by
    rcases Nat.lt_or_ge i l.length with h' | h'
    · exact h'
    · rw [List.getElem?_eq_none h'] at h; cases h
  rw [List.getElem?_set]
  by_cases hji : j = i
  · subst hji; simp [hi]
  · have : ¬ i = j := fun h => hji h.symm
    simp [hji, this]

theorem getElem?_append_new {α : Type} (l : List α) (a : α) (j : Nat) :
    (l ++ [a])[j]? = if j < l.length then l[j]? else if j = l.length then some a else none := by
  by_cases h : j < l.length
  · simp [h, List.getElem?_append_left h]
  · have h' : l.length ≤ j := Nat.le_of_not_lt h
    rw [List.getElem?_append_right h']
    by_cases h2 : j = l.length
    · subst h2; simp
    · have : j - l.length ≠ 0 := by omega
      simp [h, h2]
      omega

theorem lt_length_of_getElem? {α : Type} {l : List α} {i : Nat} {a : α} (h : l[i]? = some a) : i < l.length := by
  rcases Nat.lt_or_ge i l.length with h' | h'
  · exact h'
  · rw [List.getElem?_eq_none h'] at h; cases h

theorem getElem?_append_old {α : Type} {l : List α} {j : Nat} {a : α} (h : l[j]? = some a) (b : α) :
    (l ++ [b])[j]? = some a := by
  rw [List.getElem?_append_left (lt_length_of_getElem? h)]; exact h

/-- the registration state of members is untouched by an update that keeps `counted` and `finished` -/
theorem pending_transfer {ms ms' : List Member}
    (h : ∀ (j : Nat) (m : Member), ms[j]? = some m → m.counted = false →
      ∃ m' : Member, ms'[j]? = some m' ∧ m'.counted = false ∧ m'.finished = m.finished)
    (i : Nat) (hi : ∃ m, ms[i]? = some m ∧ m.counted = false ∧ m.finished = false) :
    ∃ m, ms'[i]? = some m ∧ m.counted = false ∧ m.finished = false := by
  obtain ⟨m, hm, hc, hf⟩ := hi
  obtain ⟨m', hm', hc', hf'⟩ := h i m hm hc
  exact ⟨m', hm', hc', by rw [hf', hf]⟩

theorem pendingOK_set {s : State} {i : Nat} {m m' : Member} (hm : s.members[i]? = some m)
    (hc : m'.counted = m.counted) (hf : m.counted = false → m'.finished = m.finished) :
    ∀ (j : Nat) (m0 : Member), s.members[j]? = some m0 → m0.counted = false →
      ∃ m1 : Member, (s.members.set i m')[j]? = some m1 ∧ m1.counted = false ∧ m1.finished = m0.finished := by
  intro j m0 hj hc0
  rw [getElem?_set_of hm]
  by_cases hji : j = i
  · subst hji
    rw [hm] at hj; cases hj
    exact ⟨m', by simp, by rw [hc, hc0], hf hc0⟩
  · exact ⟨m0, by simp [hji, hj], hc0, rfl⟩

theorem pendingOK_inv {cfg : Cfg} {su : Setup} : ∀ s, Reach cfg su s → PendingOK s := by
  apply reach_induction
  · simp [init, PendingOK]
  · intro s c s' _ ih h
    obtain ⟨hsa, hrun, hne⟩ := ih
    -- updates of one member that keep `counted`, and `finished` of unregistered members
    have keep : ∀ (i : Nat) (m m' : Member) (s' : State), s.members[i]? = some m → m'.counted = m.counted →
        (m.counted = false → m'.finished = m.finished) → s'.members = s.members.set i m' →
        s'.saPending = s.saPending → s'.runPending = s.runPending → PendingOK s' := by
      intro i m m' s' hm hc hf hms h1 h2
      refine ⟨?_, ?_, ?_⟩
      · intro k hk; rw [hms]; rw [h1] at hk
        exact pending_transfer (pendingOK_set hm hc hf) k (hsa k hk)
      · intro k hk; rw [hms]; rw [h2] at hk
        exact pending_transfer (pendingOK_set hm hc hf) k (hrun k hk)
      · intro k hk; rw [h1] at hk; rw [h2]; exact hne k hk
    cases h
    case saStart str rest hp h1 h2 hfl =>
      refine ⟨?_, ?_, ?_⟩
      · intro i hi
        simp only [Option.some.injEq] at hi
        subst hi
        exact ⟨{ todo := str, subscribed := cfg.subBeforeStart }, by simp [getElem?_append_new], rfl, rfl⟩
      · intro i hi
        obtain ⟨m, hm, hc, hf⟩ := hrun i hi
        exact ⟨m, getElem?_append_old hm _, hc, hf⟩
      · intro i hi hr
        simp only [Option.some.injEq] at hi
        subst hi
        obtain ⟨m, hm, _, _⟩ := hrun _ hr
        exact Nat.lt_irrefl _ (lt_length_of_getElem? hm)
    case saStartReg str rest hp h1 h2 hfl =>
      refine ⟨by simp, ?_, by simp⟩
      intro i hi
      obtain ⟨m, hm, hc, hf⟩ := hrun i hi
      exact ⟨m, getElem?_append_old hm _, hc, hf⟩
    case runInstReg tid rest str hp ha hr' hm hro hfl =>
      refine ⟨?_, by simp, by simp⟩
      intro i hi
      obtain ⟨m, hm, hc, hf⟩ := hsa i hi
      exact ⟨m, getElem?_append_old hm _, hc, hf⟩
    case saRegister i hp h1 =>
      refine ⟨by simp, ?_, by simp⟩
      intro j hj
      obtain ⟨m, hm, hc, hf⟩ := hrun j hj
      have hji : j ≠ i := fun e => hne i h1 (e ▸ hj)
      exact ⟨m, by simp [regMember_getElem?, hji, hm], hc, hf⟩
    case runInst id rest str hp ha hr hm hro hfl =>
      refine ⟨?_, ?_, ?_⟩
      · intro i hi
        obtain ⟨m, hm, hc, hf⟩ := hsa i hi
        exact ⟨m, getElem?_append_old hm _, hc, hf⟩
      · intro i hi
        simp only [Option.some.injEq] at hi
        subst hi
        exact ⟨{ todo := str, origin := some id, subscribed := cfg.instSubBeforeStart }, by simp [getElem?_append_new], rfl, rfl⟩
      · intro i hi hr'
        simp only [Option.some.injEq] at hr'
        obtain ⟨m, hm, _, _⟩ := hsa i hi
        have := lt_length_of_getElem? hm
        omega
    case runRegister i hp h1 =>
      refine ⟨?_, by simp, by simp⟩
      intro j hj
      obtain ⟨m, hm, hc, hf⟩ := hsa j hj
      have hji : j ≠ i := fun e => hne j hj (e ▸ h1)
      exact ⟨m, by simp [regMember_getElem?, hji, hm], hc, hf⟩
    case proc i m hp hm hc hb => exact keep i m m.emit _ hm rfl (fun _ => rfl) rfl rfl rfl
    case subscribe i m hp hm hc hs => exact keep i m { m with subscribed := true } _ hm rfl (fun _ => rfl) rfl rfl rfl
    case watchTau i m q hp hm hc hs hf hq => exact keep i m { m with queue := q } _ hm rfl (fun _ => rfl) rfl rfl rfl
    case watchThrow i m id q hp hm hc hs hf hq => exact keep i m { m with queue := q } _ hm rfl (fun _ => rfl) rfl rfl rfl
    case watchListen i m c q hp hm hc hs hf hq => exact keep i m { m with queue := q } _ hm rfl (fun _ => rfl) rfl rfl rfl
    case watchCease i m q hp hm hc hs hf hq =>
      exact keep i m { m with queue := q, finished := true } _ hm rfl (fun h => by rw [hc] at h; cases h) rfl rfl rfl
    case waker k wk hp hk hr hd =>
      have tr : ∀ (j : Nat) (m0 : Member), s.members[j]? = some m0 → m0.counted = false →
          ∃ m1 : Member, (unblock s.members wk.member wk.c)[j]? = some m1 ∧ m1.counted = false ∧ m1.finished = m0.finished := by
        intro j m0 hj hc0
        rw [unblock_getElem?, hj]
        simp only [Option.map_some]
        split
        · exact ⟨_, rfl, hc0, rfl⟩
        · exact ⟨_, rfl, hc0, rfl⟩
      exact ⟨fun i hi => pending_transfer tr i (hsa i hi), fun i hi => pending_transfer tr i (hrun i hi), hne⟩
    all_goals exact ⟨hsa, hrun, hne⟩

/-! ## the wait group counts the unfinished watchers and the pending wakers -/

def wPending (m : Member) : Nat := if m.counted && !m.finished then 1 else 0
def kPending (wk : Waker) : Nat := if wk.done then 0 else 1

theorem total_set_same {α : Type} (f : α → Nat) {l : List α} {i : Nat} {a b : α} (h : l[i]? = some a) (hf : f b = f a) :
    total f (l.set i b) = total f l := by
  have := total_set f l i a b h; omega

theorem regMember_eq_set {ms : List Member} {i : Nat} {m : Member} (h : ms[i]? = some m) (b : Bool) :
    regMember ms i b = ms.set i { m with counted := true, lateJoin := b } := by
  unfold regMember; rw [h]

theorem total_unblock (f : Member → Nat) (hf : ∀ m : Member, f { m with blocked := none } = f m) (ms : List Member) (i c : Nat) :
    total f (unblock ms i c) = total f ms := by
  unfold unblock
  split
  · next m hm =>
    split
    · exact total_set_same f hm (hf m)
    · rfl
  · rfl

theorem route_wake {su : Setup} {s : State} {id c k : Nat} {wk : Waker} (h : route su s id = .wake c k wk) :
    s.wakers[k]? = some wk ∧ su.target id = some (.catch_ c) ∧ (c, k) ∈ s.catches := by
  unfold route at h
  split at h
  · split at h <;> cases h
  · next c' ht =>
    split at h
    · next c'' k' hf =>
      split at h
      · next wk' hw =>
        cases h
        have hmem := List.mem_of_find?_eq_some hf
        have hc := List.find?_some hf
        simp only [beq_iff_eq] at hc
        subst hc
        exact ⟨hw, ht, hmem⟩
      · cases h
    · cases h
  · cases h

theorem route_inst {su : Setup} {s : State} {id : Nat} {str : List Ev} (h : route su s id = .inst str) :
    ∃ w, su.target id = some (.start w) ∧ su.waitings[w]? = some str := by
  unfold route at h
  split at h
  · next w ht =>
    split at h
    · next str' hw => cases h; exact ⟨w, ht, hw⟩
    · cases h
  · split at h
    · split at h <;> cases h
    · cases h
  · cases h

def WG (s : State) : Prop := s.wg = total wPending s.members + total kPending s.wakers

theorem wPending_le_one (m : Member) : wPending m ≤ 1 := by unfold wPending; split <;> omega

theorem wg_inv {cfg : Cfg} {su : Setup} : ∀ s, Reach cfg su s → WG s := by
  apply reach_induction
  · simp [init, WG, total]
  · intro s c s' hr ih h
    obtain ⟨hsa, hrun, _⟩ := pendingOK_inv s hr
    unfold WG at ih ⊢
    -- an update of one member that keeps its weight
    have keep : ∀ (i : Nat) (m m' : Member), s.members[i]? = some m → wPending m' = wPending m →
        total wPending (s.members.set i m') = total wPending s.members :=
      fun i m m' hm hw => total_set_same wPending hm hw
    cases h
    case saStart str rest hp h1 h2 hfl => simp [total_append, total, wPending, ih]
    case saStartReg str rest hp h1 h2 hfl => simp [total_append, total, wPending, ih]; omega
    case runInstReg tid rest str hp ha hr' hm hro hfl => simp [total_append, total, wPending, ih]; omega
    case saRegister i hp h1 =>
      obtain ⟨m, hm, hc, hf⟩ := hsa i h1
      have := total_set wPending s.members i m { m with counted := true, lateJoin := decide (1 ≤ s.closes) } hm
      have hw1 : wPending { m with counted := true, lateJoin := decide (1 ≤ s.closes) } = 1 := by simp [wPending, hf]
      have hw0 : wPending m = 0 := by simp [wPending, hc]
      rw [hw1, hw0] at this
      simp only [regMember_eq_set hm]
      omega
    case proc i m hp hm hc hb => simp only; rw [keep i m m.emit hm (by simp [wPending, Member.emit])]; exact ih
    case subscribe i m hp hm hc hs => simp only; rw [keep i m _ hm (by simp [wPending])]; exact ih
    case watchTau i m q hp hm hc hs hf hq => simp only; rw [keep i m _ hm (by simp [wPending])]; exact ih
    case watchThrow i m id q hp hm hc hs hf hq => simp only; rw [keep i m _ hm (by simp [wPending])]; exact ih
    case watchListen i m c q hp hm hc hs hf hq =>
      simp only; rw [keep i m _ hm (by simp [wPending]), total_append]; simp [total, kPending]; omega
    case watchCease i m q hp hm hc hs hf hq =>
      have := total_set wPending s.members i m { m with queue := q, finished := true } hm
      have hw1 : wPending { m with queue := q, finished := true } = 0 := by simp [wPending]
      have hw0 : wPending m = 1 := by simp [wPending, hc, hf]
      rw [hw1, hw0] at this
      simp only; omega
    case runInst id rest str hp ha hr' hm hro hfl => simp [total_append, total, wPending, ih]
    case runWake id rest c k wk hp ha hr' hm hro =>
      have hk := (route_wake hro).1
      simp only; rw [total_set_same kPending hk (by simp [kPending])]; exact ih
    case runDrop => exact ih
    case runRegister i hp h1 =>
      obtain ⟨m, hm, hc, hf⟩ := hrun i h1
      have := total_set wPending s.members i m { m with counted := true, lateJoin := decide (1 ≤ s.closes) } hm
      have hw1 : wPending { m with counted := true, lateJoin := decide (1 ≤ s.closes) } = 1 := by simp [wPending, hf]
      have hw0 : wPending m = 0 := by simp [wPending, hc]
      rw [hw1, hw0] at this
      simp only [regMember_eq_set hm]
      omega
    case runDone => exact ih
    case waker k wk hp hk hr' hd =>
      have := total_set kPending s.wakers k wk { wk with done := true } hk
      have hw1 : kPending { wk with done := true } = 0 := by simp [kPending]
      have hw0 : kPending wk = 1 := by simp [kPending, hd]
      rw [hw1, hw0] at this
      simp only
      rw [total_unblock wPending (by intro m; simp [wPending])]
      omega
    case waitCall => exact ih
    case closeFirst => exact ih
    case closeGuarded => exact ih
    case closeAgain => exact ih
    case waitReturn => exact ih
    case waitTimeout => exact ih

/-! ## member-local facts -/

structure MemberOK (m : Member) : Prop where
  fin_ceased : m.finished = true → m.ceased = true
  fin_counted : m.finished = true → m.counted = true
  cease_queue : Tr.cease ∈ m.queue → m.ceased = true
  unsub_queue : m.subscribed = false → m.queue = []
  ceased_done : m.ceased = true → m.todo = [] ∧ m.blocked = none

theorem forall_set {α : Type} {P : α → Prop} {l : List α} {i : Nat} {b : α} (h : ∀ a ∈ l, P a) (hb : P b) :
    ∀ a ∈ l.set i b, P a := by
  intro a ha
  rcases List.mem_or_eq_of_mem_set ha with h1 | rfl
  · exact h a h1
  · exact hb

theorem forall_append_one {α : Type} {P : α → Prop} {l : List α} {b : α} (h : ∀ a ∈ l, P a) (hb : P b) :
    ∀ a ∈ l ++ [b], P a := by
  intro a ha
  simp only [List.mem_append, List.mem_singleton] at ha
  rcases ha with h1 | rfl
  · exact h a h1
  · exact hb

theorem forall_regMember {P : Member → Prop} {ms : List Member} {i : Nat} {b : Bool} (h : ∀ m ∈ ms, P m)
    (hp : ∀ m ∈ ms, P m → P { m with counted := true, lateJoin := b }) : ∀ m ∈ regMember ms i b, P m := by
  unfold regMember
  split
  · next m hm => exact forall_set h (hp m (List.mem_of_getElem? hm) (h m (List.mem_of_getElem? hm)))
  · exact h

theorem forall_unblock {P : Member → Prop} {ms : List Member} {i c : Nat} (h : ∀ m ∈ ms, P m)
    (hp : ∀ m ∈ ms, P m → P { m with blocked := none }) : ∀ m ∈ unblock ms i c, P m := by
  unfold unblock
  split
  · next m hm =>
    split
    · exact forall_set h (hp m (List.mem_of_getElem? hm) (h m (List.mem_of_getElem? hm)))
    · exact h
  · exact h

theorem memberOK_emit {m : Member} (h : MemberOK m) (hc : m.ceased = false) : MemberOK m.emit := by
  constructor
  · intro hf
    have := h.fin_ceased hf
    rw [hc] at this; cases this
  · exact h.fin_counted
  · intro hq
    unfold Member.emit at hq ⊢
    simp only at hq ⊢
    split at hq
    · simp only [List.mem_append, List.mem_singleton] at hq
      rcases hq with hq | hq
      · have := h.cease_queue hq; rw [hc] at this; cases this
      · simp [← hq]
    · have := h.cease_queue hq; rw [hc] at this; cases this
  · intro hs
    unfold Member.emit at hs ⊢
    simp only at hs ⊢
    simp [hs, h.unsub_queue hs]
  · intro hcs
    unfold Member.emit at hcs ⊢
    simp only [decide_eq_true_eq] at hcs ⊢
    have ht : m.todo = [] := by
      unfold Member.nextTr at hcs
      split at hcs
      · cases hcs
      · assumption
    refine ⟨by simp [ht], ?_⟩
    rw [hcs]

theorem memberOK_inv {cfg : Cfg} {su : Setup} : ∀ s, Reach cfg su s → ∀ m ∈ s.members, MemberOK m := by
  apply reach_induction
  · simp [init]
  · intro s c s' hr ih h
    have fresh : ∀ (m : Member), m.finished = false → m.queue = [] → m.ceased = false → MemberOK m := by
      intro m h1 h2 h3
      exact ⟨by simp [h1], by simp [h1], by simp [h2], fun _ => h2, by simp [h3]⟩
    cases h
    case saStart str rest hp h1 h2 hfl => exact forall_append_one ih (fresh _ rfl rfl rfl)
    case saStartReg => exact forall_append_one ih (fresh _ rfl rfl rfl)
    case runInstReg => exact forall_append_one ih (fresh _ rfl rfl rfl)
    case saRegister i hp h1 =>
      exact forall_regMember ih (fun m _ hm => ⟨hm.fin_ceased, fun _ => rfl, hm.cease_queue, hm.unsub_queue, hm.ceased_done⟩)
    case proc i m hp hm hc hb => exact forall_set ih (memberOK_emit (ih m (List.mem_of_getElem? hm)) hc)
    case subscribe i m hp hm hc hs =>
      have := ih m (List.mem_of_getElem? hm)
      exact forall_set ih ⟨this.fin_ceased, this.fin_counted, this.cease_queue, by simp, this.ceased_done⟩
    case watchTau i m q hp hm hc hs hf hq =>
      have := ih m (List.mem_of_getElem? hm)
      exact forall_set ih ⟨this.fin_ceased, this.fin_counted, fun h => this.cease_queue (by rw [hq]; exact List.mem_cons_of_mem _ h),
        by simp [hs], this.ceased_done⟩
    case watchThrow i m id q hp hm hc hs hf hq =>
      have := ih m (List.mem_of_getElem? hm)
      exact forall_set ih ⟨this.fin_ceased, this.fin_counted, fun h => this.cease_queue (by rw [hq]; exact List.mem_cons_of_mem _ h),
        by simp [hs], this.ceased_done⟩
    case watchListen i m c q hp hm hc hs hf hq =>
      have := ih m (List.mem_of_getElem? hm)
      exact forall_set ih ⟨this.fin_ceased, this.fin_counted, fun h => this.cease_queue (by rw [hq]; exact List.mem_cons_of_mem _ h),
        by simp [hs], this.ceased_done⟩
    case watchCease i m q hp hm hc hs hf hq =>
      have := ih m (List.mem_of_getElem? hm)
      exact forall_set ih ⟨fun _ => this.cease_queue (by rw [hq]; exact List.mem_cons_self), fun _ => hc,
        fun h => this.cease_queue (by rw [hq]; exact List.mem_cons_of_mem _ h), by simp [hs], this.ceased_done⟩
    case runInst id rest str hp ha hr' hm hro hfl => exact forall_append_one ih (fresh _ rfl rfl rfl)
    case runRegister i hp h1 =>
      exact forall_regMember ih (fun m _ hm => ⟨hm.fin_ceased, fun _ => rfl, hm.cease_queue, hm.unsub_queue, hm.ceased_done⟩)
    case waker k wk hp hk hr' hd =>
      exact forall_unblock ih (fun m _ hm => ⟨hm.fin_ceased, hm.fin_counted, hm.cease_queue, hm.unsub_queue,
        fun h => ⟨(hm.ceased_done h).1, rfl⟩⟩)
    all_goals exact ih

/-! ## soundness of the completion report -/

/-- once `done` is closed, every member registered before the close has a finished watcher -/
theorem closed_members_finished {cfg : Cfg} {su : Setup} :
    ∀ s, Reach cfg su s → 1 ≤ s.closes → ∀ m ∈ s.members, m.counted = true → m.lateJoin = false → m.finished = true := by
  apply reach_induction
  · simp [init]
  · intro s c s' hr ih h
    have hwg := wg_inv s hr
    have upd : ∀ (i : Nat) (m m' : Member), s.members[i]? = some m → m'.counted = m.counted → m'.lateJoin = m.lateJoin →
        (m.finished = true → m'.finished = true) → 1 ≤ s.closes →
        ∀ x ∈ s.members.set i m', x.counted = true → x.lateJoin = false → x.finished = true := by
      intro i m m' hm h1 h2 h3 hc
      refine forall_set (ih hc) ?_
      intro hx hl
      exact h3 (ih hc m (List.mem_of_getElem? hm) (h1 ▸ hx) (h2 ▸ hl))
    cases h
    case saStart str rest hp h1 h2 hfl =>
      intro hc
      exact forall_append_one (ih hc) (by simp)
    case saStartReg str rest hp h1 h2 hfl =>
      intro hc
      have hc' : 1 ≤ s.closes := hc
      exact forall_append_one (ih hc) (by simp; omega)
    case runInstReg tid rest str hp ha hr' hm hro hfl =>
      intro hc
      have hc' : 1 ≤ s.closes := hc
      exact forall_append_one (ih hc) (by simp; omega)
    case saRegister i hp h1 =>
      intro hc
      have hc' : 1 ≤ s.closes := hc
      exact forall_regMember (ih hc) (fun m _ _ _ hl => by simp at hl; omega)
    case proc i m hp hm hc hb => exact upd i m m.emit hm rfl rfl id
    case subscribe i m hp hm hc hs => exact upd i m _ hm rfl rfl id
    case watchTau i m q hp hm hc hs hf hq => exact upd i m { m with queue := q } hm rfl rfl id
    case watchThrow i m tid q hp hm hc hs hf hq => exact upd i m { m with queue := q } hm rfl rfl (fun h => h)
    case watchListen i m c q hp hm hc hs hf hq => exact upd i m { m with queue := q } hm rfl rfl (fun h => h)
    case watchCease i m q hp hm hc hs hf hq => exact upd i m { m with queue := q, finished := true } hm rfl rfl (fun _ => rfl)
    case runInst id rest str hp ha hr' hm hro hfl =>
      intro hc
      exact forall_append_one (ih hc) (by simp)
    case runRegister i hp h1 =>
      intro hc
      have hc' : 1 ≤ s.closes := hc
      exact forall_regMember (ih hc) (fun m _ _ _ hl => by simp at hl; omega)
    case waker k wk hp hk hr' hd =>
      intro hc
      exact forall_unblock (ih hc) (fun m _ hm => hm)
    case closeFirst w wt hp hw hd hwg0 hc0 =>
      intro _ m hm hcnt _
      unfold WG at hwg
      have hz : total wPending s.members = 0 := by omega
      have := total_eq_zero wPending _ hz m hm
      unfold wPending at this
      split at this
      · cases this
      · next hn => simpa [hcnt] using hn
    all_goals exact ih

/-! ## towards liveness -/

/-- a member that is not registered with the wait group is the one `StartAll` or `run` is about to register -/
theorem uncounted_pending {cfg : Cfg} {su : Setup} :
    ∀ s, Reach cfg su s → ∀ (j : Nat) (m : Member), s.members[j]? = some m → m.counted = false →
      s.saPending = some j ∨ s.runPending = some j := by
  apply reach_induction
  · simp [init]
  · intro s c s' hr ih h
    have upd : ∀ (i : Nat) (m m' : Member) (sa rn : Option Nat), s.members[i]? = some m → m'.counted = m.counted →
        sa = s.saPending → rn = s.runPending →
        ∀ (j : Nat) (x : Member), (s.members.set i m')[j]? = some x → x.counted = false → sa = some j ∨ rn = some j := by
      intro i m m' sa rn hm hc h1 h2 j x hj hx
      subst h1 h2
      rw [getElem?_set_of hm] at hj
      split at hj
      · next hji => cases hj; subst hji; exact ih _ m hm (hc ▸ hx)
      · exact ih j x hj hx
    cases h
    case saStart str rest hp h1 h2 hfl =>
      intro j m hj hc
      rw [getElem?_append_new] at hj
      split at hj
      · rcases ih j m hj hc with h | h
        · rw [h2] at h; cases h
        · exact Or.inr h
      · split at hj
        · next hj' => subst hj'; exact Or.inl rfl
        · cases hj
    case saStartReg str rest hp h1 h2 hfl =>
      intro j m hj hc
      rw [getElem?_append_new] at hj
      split at hj
      · rcases ih j m hj hc with h | h
        · rw [h2] at h; cases h
        · exact Or.inr h
      · split at hj
        · cases hj; simp at hc
        · cases hj
    case runInstReg tid rest str hp ha hr' hm hro hfl =>
      intro j m hj hc
      rw [getElem?_append_new] at hj
      split at hj
      · rcases ih j m hj hc with h | h
        · exact Or.inl h
        · rw [hr'] at h; cases h
      · split at hj
        · cases hj; simp at hc
        · cases hj
    case saRegister i hp h1 =>
      intro j m hj hc
      rw [regMember_getElem?] at hj
      split at hj
      · cases hm : s.members[i]? with
        | none => rw [hm] at hj; cases hj
        | some m0 => rw [hm] at hj; cases hj; simp at hc
      · next hji =>
        rcases ih j m hj hc with h | h
        · rw [h1] at h; cases h; exact absurd rfl hji
        · exact Or.inr h
    case proc i m hp hm hc hb => exact upd i m m.emit _ _ hm rfl rfl rfl
    case subscribe i m hp hm hc hs => exact upd i m { m with subscribed := true } _ _ hm rfl rfl rfl
    case watchTau i m q hp hm hc hs hf hq => exact upd i m { m with queue := q } _ _ hm rfl rfl rfl
    case watchThrow i m tid q hp hm hc hs hf hq => exact upd i m { m with queue := q } _ _ hm rfl rfl rfl
    case watchListen i m c q hp hm hc hs hf hq => exact upd i m { m with queue := q } _ _ hm rfl rfl rfl
    case watchCease i m q hp hm hc hs hf hq => exact upd i m { m with queue := q, finished := true } _ _ hm rfl rfl rfl
    case runInst tid rest str hp ha hr' hm hro hfl =>
      intro j m hj hc
      rw [getElem?_append_new] at hj
      split at hj
      · rcases ih j m hj hc with h | h
        · exact Or.inl h
        · rw [hr'] at h; cases h
      · split at hj
        · next hj' => subst hj'; exact Or.inr rfl
        · cases hj
    case runRegister i hp h1 =>
      intro j m hj hc
      rw [regMember_getElem?] at hj
      split at hj
      · cases hm : s.members[i]? with
        | none => rw [hm] at hj; cases hj
        | some m0 => rw [hm] at hj; cases hj; simp at hc
      · next hji =>
        rcases ih j m hj hc with h | h
        · exact Or.inl h
        · rw [h1] at h; cases h; exact absurd rfl hji
    case waker k wk hp hk hr' hd =>
      intro j m hj hc
      rw [unblock_getElem?] at hj
      cases hm : s.members[j]? with
      | none => rw [hm] at hj; cases hj
      | some m0 =>
        rw [hm] at hj
        simp only [Option.map_some, Option.some.injEq] at hj
        refine ih j m0 hm ?_
        rw [← hj] at hc
        split at hc <;> exact hc
    all_goals exact ih

/-- with the subscription established before the start, a watcher misses nothing -/
theorem subscribed_from_start {cfg : Cfg} {su : Setup} (h1 : cfg.subBeforeStart = true) (h2 : cfg.instSubBeforeStart = true) :
    ∀ s, Reach cfg su s → ∀ m ∈ s.members, m.subscribed = true ∧ m.missed = [] := by
  apply reach_induction
  · simp [init]
  · intro s c s' hr ih h
    cases h
    case saStart => exact forall_append_one ih ⟨h1, rfl⟩
    case saStartReg => exact forall_append_one ih ⟨h1, rfl⟩
    case runInstReg => exact forall_append_one ih ⟨h2, rfl⟩
    case saRegister => exact forall_regMember ih (fun m _ hm => hm)
    case proc i m hp hm hc hb =>
      have := ih m (List.mem_of_getElem? hm)
      exact forall_set ih ⟨this.1, by simp [Member.emit, this.1, this.2]⟩
    case subscribe i m hp hm hc hs => exact forall_set ih ⟨rfl, (ih m (List.mem_of_getElem? hm)).2⟩
    case watchTau i m q hp hm hc hs hf hq => exact forall_set ih (ih m (List.mem_of_getElem? hm))
    case watchThrow i m tid q hp hm hc hs hf hq => exact forall_set ih (ih m (List.mem_of_getElem? hm))
    case watchListen i m c q hp hm hc hs hf hq => exact forall_set ih (ih m (List.mem_of_getElem? hm))
    case watchCease i m q hp hm hc hs hf hq => exact forall_set ih (ih m (List.mem_of_getElem? hm))
    case runInst => exact forall_append_one ih ⟨h2, rfl⟩
    case runRegister => exact forall_regMember ih (fun m _ hm => hm)
    case waker => exact forall_unblock ih (fun m _ hm => hm)
    all_goals exact ih

/-- the cease-flow trace of a member is in its watcher's hands, unless the watcher was not yet subscribed -/
theorem cease_tracked {cfg : Cfg} {su : Setup} :
    ∀ s, Reach cfg su s → ∀ m ∈ s.members, m.ceased = true →
      Tr.cease ∈ m.missed ∨ Tr.cease ∈ m.queue ∨ m.finished = true := by
  apply reach_induction
  · simp [init]
  · intro s c s' hr ih h
    have pop : ∀ (i : Nat) (m : Member) (t : Tr) (q : List Tr), s.members[i]? = some m → m.queue = t :: q → t ≠ .cease →
        ∀ x ∈ s.members.set i { m with queue := q }, x.ceased = true → Tr.cease ∈ x.missed ∨ Tr.cease ∈ x.queue ∨ x.finished = true := by
      intro i m t q hm hq ht
      refine forall_set ih ?_
      intro hc
      rcases ih m (List.mem_of_getElem? hm) hc with h | h | h
      · exact Or.inl h
      · rw [hq] at h
        simp only [List.mem_cons] at h
        rcases h with h | h
        · exact absurd h.symm ht
        · exact Or.inr (Or.inl h)
      · exact Or.inr (Or.inr h)
    cases h
    case saStart => exact forall_append_one ih (by simp)
    case saStartReg => exact forall_append_one ih (by simp)
    case runInstReg => exact forall_append_one ih (by simp)
    case saRegister => exact forall_regMember ih (fun m _ hm => hm)
    case proc i m hp hm hc hb =>
      refine forall_set ih ?_
      intro hce
      unfold Member.emit at hce ⊢
      simp only [decide_eq_true_eq] at hce ⊢
      by_cases hs : m.subscribed = true
      · simp [hs, hce]
      · simp [hs, hce]
    case subscribe i m hp hm hc hs => exact forall_set ih (ih m (List.mem_of_getElem? hm))
    case watchTau i m q hp hm hc hs hf hq => exact pop i m _ q hm hq (by simp)
    case watchThrow i m tid q hp hm hc hs hf hq => exact pop i m _ q hm hq (by simp)
    case watchListen i m c q hp hm hc hs hf hq => exact pop i m _ q hm hq (by simp)
    case watchCease i m q hp hm hc hs hf hq => exact forall_set ih (fun _ => Or.inr (Or.inr rfl))
    case runInst => exact forall_append_one ih (by simp)
    case runRegister => exact forall_regMember ih (fun m _ hm => hm)
    case waker => exact forall_unblock ih (fun m _ hm => hm)
    all_goals exact ih

/-! ## enabledness -/

theorem enabled_saRegister {cfg : Cfg} {su : Setup} {s : State} {i : Nat} (hp : s.panicked = false)
    (h : s.saPending = some i) : enabled cfg su s .saRegister = true := by
  simp [enabled, next, hp, h]

theorem enabled_runRegister {cfg : Cfg} {su : Setup} {s : State} {i : Nat} (hp : s.panicked = false)
    (h : s.runPending = some i) : enabled cfg su s .runRegister = true := by
  simp [enabled, next, hp, h]

theorem enabled_watcher {cfg : Cfg} {su : Setup} {s : State} {i : Nat} {m : Member} (hp : s.panicked = false)
    (hm : s.members[i]? = some m) (hc : m.counted = true) (hs : m.subscribed = true) (hf : m.finished = false)
    (hq : m.queue ≠ []) : enabled cfg su s (.watcher i) = true := by
  unfold enabled next
  simp only [hp, hm, hc, hs, hf]
  cases hq' : m.queue with
  | nil => exact absurd hq' hq
  | cons t q =>
    cases t with
    | cease => simp
    | ev e => cases e <;> simp

theorem enabled_closer {cfg : Cfg} {su : Setup} {s : State} {w : Nat} {wt : Wait} (hp : s.panicked = false)
    (hw : s.waits[w]? = some wt) (hd : wt.closerDone = false) (hwg : s.wg = 0) : enabled cfg su s (.closer w) = true := by
  unfold enabled next
  simp only [hp, hw, hd, hwg]
  by_cases h0 : s.closes = 0
  · simp [h0]
  · cases ho : cfg.closeOnce <;> simp [h0]

theorem enabled_waitReturn {cfg : Cfg} {su : Setup} {s : State} {w : Nat} {wt : Wait} (hp : s.panicked = false)
    (hw : s.waits[w]? = some wt) (hr : wt.result = none) (hc : 1 ≤ s.closes) : enabled cfg su s (.waitReturn w) = true := by
  simp [enabled, next, hp, hw, hr, hc]

theorem enabled_runDone {cfg : Cfg} {su : Setup} {s : State} (hp : s.panicked = false) (ha : s.runAlive = true)
    (hr : s.runPending = none) (hc : 1 ≤ s.closes) : enabled cfg su s .runDone = true := by
  simp [enabled, next, hp, ha, hr, hc]

theorem enabled_runMsg {cfg : Cfg} {su : Setup} {s : State} (hp : s.panicked = false) (ha : s.runAlive = true)
    (hr : s.runPending = none) (hm : s.mch ≠ []) : enabled cfg su s .runMsg = true := by
  unfold enabled next
  simp only [hp, ha, hr]
  cases hm' : s.mch with
  | nil => exact absurd hm' hm
  | cons id rest =>
    simp only [Bool.false_eq_true, if_false, Option.isNone_none, Bool.and_self, if_true]
    cases route su s id <;> simp

/-- out-of-range indices are never enabled, so quiescence can be computed -/
theorem quiescent_of_check {cfg : Cfg} {su : Setup} {s : State} (h : quiescentB cfg su s = true) : Quiescent cfg su s := by
  intro c hc
  unfold quiescentB at h
  rw [List.all_eq_true] at h
  have dis : ∀ c', c' ∈ internalChoices s → enabled cfg su s c' = false := by
    intro c' hc'; simpa using h c' hc'
  have mem_m : ∀ (i : Nat) (c' : Choice), c' ∈ [Choice.proc i, .subscribe i, .watcher i] → i < s.members.length →
      c' ∈ internalChoices s := by
    intro i c' h1 h2
    unfold internalChoices
    simp only [List.mem_append, List.mem_flatMap, List.mem_range]
    exact Or.inl (Or.inl (Or.inr ⟨i, h2, h1⟩))
  have mem_w : ∀ (w : Nat) (c' : Choice), c' ∈ [Choice.closer w, .waitReturn w] → w < s.waits.length →
      c' ∈ internalChoices s := by
    intro w c' h1 h2
    unfold internalChoices
    simp only [List.mem_append, List.mem_flatMap, List.mem_range]
    exact Or.inr ⟨w, h2, h1⟩
  have oob_m : ∀ i, ¬ i < s.members.length → s.members[i]? = none := fun i hi => List.getElem?_eq_none (Nat.le_of_not_lt hi)
  have oob_w : ∀ i, ¬ i < s.waits.length → s.waits[i]? = none := fun i hi => List.getElem?_eq_none (Nat.le_of_not_lt hi)
  cases c with
  | waitCall => rfl
  | waitTimeout w => rfl
  | saStart => rw [dis .saStart (by simp [internalChoices])] at hc; cases hc
  | saRegister => rw [dis .saRegister (by simp [internalChoices])] at hc; cases hc
  | runMsg => rw [dis .runMsg (by simp [internalChoices])] at hc; cases hc
  | runRegister => rw [dis .runRegister (by simp [internalChoices])] at hc; cases hc
  | runDone => rw [dis .runDone (by simp [internalChoices])] at hc; cases hc
  | proc i =>
    by_cases hi : i < s.members.length
    · rw [dis _ (mem_m i _ (by simp) hi)] at hc; cases hc
    · simp [enabled, next, oob_m i hi] at hc
  | subscribe i =>
    by_cases hi : i < s.members.length
    · rw [dis _ (mem_m i _ (by simp) hi)] at hc; cases hc
    · simp [enabled, next, oob_m i hi] at hc
  | watcher i =>
    by_cases hi : i < s.members.length
    · rw [dis _ (mem_m i _ (by simp) hi)] at hc; cases hc
    · simp [enabled, next, oob_m i hi] at hc
  | waker k =>
    by_cases hk : k < s.wakers.length
    · have : Choice.waker k ∈ internalChoices s := by
        unfold internalChoices
        simp only [List.mem_append, List.mem_map, List.mem_range]
        exact Or.inl (Or.inr ⟨k, hk, rfl⟩)
      rw [dis _ this] at hc; cases hc
    · simp [enabled, next, List.getElem?_eq_none (Nat.le_of_not_lt hk)] at hc
  | closer w =>
    by_cases hw : w < s.waits.length
    · rw [dis _ (mem_w w _ (by simp) hw)] at hc; cases hc
    · simp [enabled, next, oob_w w hw] at hc
  | waitReturn w =>
    by_cases hw : w < s.waits.length
    · rw [dis _ (mem_w w _ (by simp) hw)] at hc; cases hc
    · simp [enabled, next, oob_w w hw] at hc

/-! ## every throw is accounted for exactly once -/

def qThrows (id : Nat) (m : Member) : Nat := m.queue.count (.ev (.throw id))
def mThrows (id : Nat) (m : Member) : Nat := m.missed.count (.ev (.throw id))

theorem total_regMember (f : Member → Nat) (hf : ∀ (m : Member) (b : Bool), f { m with counted := true, lateJoin := b } = f m)
    (ms : List Member) (i : Nat) (b : Bool) : total f (regMember ms i b) = total f ms := by
  unfold regMember
  split
  · next m hm => exact total_set_same f hm (hf m b)
  · rfl

theorem emit_throws (id : Nat) (m : Member) :
    qThrows id m.emit + mThrows id m.emit = qThrows id m + mThrows id m + (thrownBy m.nextTr).count id := by
  unfold qThrows mThrows Member.emit
  simp only
  cases hs : m.subscribed
  · simp only [Bool.false_eq_true, if_false, List.count_append]
    cases htr : m.nextTr with
    | cease => simp [thrownBy]
    | ev e =>
      cases e with
      | tau => simp [thrownBy]
      | listen c => simp [thrownBy]
      | throw id' =>
        by_cases h : id' = id
        · subst h; simp [thrownBy]; omega
        · have h' : ¬ id = id' := fun e => h e.symm
          simp [thrownBy, h, h']
  · simp only [if_true, List.count_append]
    cases htr : m.nextTr with
    | cease => simp [thrownBy]
    | ev e =>
      cases e with
      | tau => simp [thrownBy]
      | listen c => simp [thrownBy]
      | throw id' =>
        by_cases h : id' = id
        · subst h; simp [thrownBy]; omega
        · have h' : ¬ id = id' := fun e => h e.symm
          simp [thrownBy, h, h']

/-- Every throw event a member has emitted is in exactly one place: turned into an instantiation, turned into a wake-up,
handled without effect, waiting in `mch`, waiting in a watcher's channel, or lost to a watcher that had not subscribed. -/
def MsgAccount (s : State) (id : Nat) : Prop :=
  s.instantiated.count id + s.woken.count id + s.dropped.count id + s.mch.count id
    + total (qThrows id) s.members + total (mThrows id) s.members = s.thrown.count id

theorem msg_account {cfg : Cfg} {su : Setup} : ∀ s, Reach cfg su s → ∀ id, MsgAccount s id := by
  apply reach_induction
  · intro id; simp [init, MsgAccount, total]
  · intro s c s' hr ih h id
    have ih := ih id
    unfold MsgAccount at ih ⊢
    have pop : ∀ (i : Nat) (m : Member) (t : Tr) (q : List Tr) (m' : Member), s.members[i]? = some m → m.queue = t :: q →
        t ≠ .ev (.throw id) → m'.queue = q → m'.missed = m.missed →
        total (qThrows id) (s.members.set i m') = total (qThrows id) s.members ∧
        total (mThrows id) (s.members.set i m') = total (mThrows id) s.members := by
      intro i m t q m' hm hq ht h1 h2
      refine ⟨total_set_same _ hm ?_, total_set_same _ hm ?_⟩
      · unfold qThrows; rw [h1, hq, List.count_cons]; simp [ht]
      · unfold mThrows; rw [h2]
    cases h
    case saStart => simp [total_append, total, qThrows, mThrows]; omega
    case saStartReg => simp [total_append, total, qThrows, mThrows]; omega
    case saRegister i hp h1 =>
      simp only
      rw [total_regMember _ (by intros; rfl), total_regMember _ (by intros; rfl)]; exact ih
    case proc i m hp hm hc hb =>
      have e := emit_throws id m
      have a := total_set (qThrows id) s.members i m m.emit hm
      have b := total_set (mThrows id) s.members i m m.emit hm
      simp only [List.count_append]
      omega
    case subscribe i m hp hm hc hs =>
      simp only
      rw [total_set_same (qThrows id) hm (by simp [qThrows]), total_set_same (mThrows id) hm (by simp [mThrows])]; exact ih
    case watchTau i m q hp hm hc hs hf hq =>
      obtain ⟨a, b⟩ := pop i m _ q { m with queue := q } hm hq (by simp) rfl rfl
      simp only; rw [a, b]; exact ih
    case watchListen i m c q hp hm hc hs hf hq =>
      obtain ⟨a, b⟩ := pop i m _ q { m with queue := q } hm hq (by simp) rfl rfl
      simp only; rw [a, b]; exact ih
    case watchCease i m q hp hm hc hs hf hq =>
      obtain ⟨a, b⟩ := pop i m _ q { m with queue := q, finished := true } hm hq (by simp) rfl rfl
      simp only; rw [a, b]; exact ih
    case watchThrow i m tid q hp hm hc hs hf hq =>
      by_cases h : tid = id
      · subst h
        have a := total_set (qThrows tid) s.members i m { m with queue := q } hm
        have b := total_set_same (mThrows tid) (b := { m with queue := q }) hm (by simp [mThrows])
        have hq1 : qThrows tid m = qThrows tid { m with queue := q } + 1 := by
          unfold qThrows; rw [hq]; simp
        simp only [List.count_append, List.count_singleton, beq_self_eq_true, if_true]
        rw [b]; omega
      · obtain ⟨a, b⟩ := pop i m _ q { m with queue := q } hm hq (by simpa using h) rfl rfl
        have h' : ¬ id = tid := fun e => h e.symm
        simp only [List.count_append]
        rw [a, b]
        simp [h, h']
        exact ih
    case runInst tid rest str hp ha hr' hm hro hfl =>
      rw [hm] at ih
      simp only [List.count_append, total_append, total, qThrows, mThrows, List.count_cons] at ih ⊢
      simp at ih ⊢
      omega
    case runInstReg tid rest str hp ha hr' hm hro hfl =>
      rw [hm] at ih
      simp only [List.count_append, total_append, total, qThrows, mThrows, List.count_cons] at ih ⊢
      simp at ih ⊢
      omega
    case runWake tid rest c k wk hp ha hr' hm hro =>
      rw [hm] at ih
      simp only [List.count_append, List.count_cons] at ih ⊢
      simp at ih ⊢
      omega
    case runDrop tid rest hp ha hr' hm hro =>
      rw [hm] at ih
      simp only [List.count_append, List.count_cons] at ih ⊢
      simp at ih ⊢
      omega
    case runRegister i hp h1 =>
      simp only
      rw [total_regMember _ (by intros; rfl), total_regMember _ (by intros; rfl)]; exact ih
    case waker k wk hp hk hr' hd =>
      simp only
      rw [total_unblock _ (by intro m; rfl), total_unblock _ (by intro m; rfl)]; exact ih
    all_goals exact ih

/-- one member per instantiation -/
theorem instances_eq {cfg : Cfg} {su : Setup} :
    ∀ s, Reach cfg su s → ∀ id, s.instances id = s.instantiated.count id := by
  have filt_set : ∀ (id : Nat) (l : List Member) (i : Nat) (m m' : Member), l[i]? = some m → m'.origin = m.origin →
      ((l.set i m').filter (·.origin == some id)).length = (l.filter (·.origin == some id)).length := by
    intro id l
    induction l with
    | nil => intro i m m' h; simp at h
    | cons x l ih =>
      intro i m m' h ho
      cases i with
      | zero => simp at h; subst h; simp only [List.set_cons_zero, List.filter_cons, ho]; split <;> simp
      | succ i =>
        simp at h
        simp only [List.set_cons_succ, List.filter_cons]
        split <;> simp [ih i m m' h ho]
  apply reach_induction
  · intro id; simp [init, State.instances]
  · intro s c s' hr ih h id
    have ih := ih id
    unfold State.instances at ih ⊢
    have reg : ∀ (i : Nat) (b : Bool), ((regMember s.members i b).filter (·.origin == some id)).length =
        (s.members.filter (·.origin == some id)).length := by
      intro i b
      unfold regMember
      split
      · next m hm => exact filt_set id _ i m { m with counted := true, lateJoin := b } hm rfl
      · rfl
    cases h
    case saStart => simpa [List.filter_append] using ih
    case saStartReg => simpa [List.filter_append] using ih
    case saRegister i hp h1 => simp only; rw [reg]; exact ih
    case proc i m hp hm hc hb => simp only; rw [filt_set id _ i m m.emit hm rfl]; exact ih
    case subscribe i m hp hm hc hs => simp only; rw [filt_set id _ i m { m with subscribed := true } hm rfl]; exact ih
    case watchTau i m q hp hm hc hs hf hq => simp only; rw [filt_set id _ i m { m with queue := q } hm rfl]; exact ih
    case watchThrow i m tid q hp hm hc hs hf hq => simp only; rw [filt_set id _ i m { m with queue := q } hm rfl]; exact ih
    case watchListen i m c q hp hm hc hs hf hq => simp only; rw [filt_set id _ i m { m with queue := q } hm rfl]; exact ih
    case watchCease i m q hp hm hc hs hf hq =>
      simp only; rw [filt_set id _ i m { m with queue := q, finished := true } hm rfl]; exact ih
    case runInst tid rest str hp ha hr' hm hro hfl =>
      simp only [List.filter_append, List.length_append, List.count_append]
      by_cases h : tid = id
      · subst h; simp [ih]
      · have h' : ¬ id = tid := fun e => h e.symm
        simp [h, h', ih]
    case runInstReg tid rest str hp ha hr' hm hro hfl =>
      simp only [List.filter_append, List.length_append, List.count_append]
      by_cases h : tid = id
      · subst h; simp [ih]
      · have h' : ¬ id = tid := fun e => h e.symm
        simp [h, h', ih]
    case runRegister i hp h1 => simp only; rw [reg]; exact ih
    case waker k wk hp hk hr' hd =>
      simp only
      unfold unblock
      split
      · next m hm =>
        split
        · rw [filt_set id _ _ m { m with blocked := none } hm rfl]; exact ih
        · exact ih
      · exact ih
    all_goals exact ih

/-! ## every executable process is started, and every member emits its own stream -/

def trEvs (ts : List Tr) : List Ev := ts.filterMap (fun t => match t with | .ev e => some e | .cease => none)

/-- what the member has emitted so far followed by what it has still to emit -/
def Member.whole (m : Member) : List Ev := trEvs m.emitted ++ m.todo

theorem whole_emit (m : Member) : m.emit.whole = m.whole := by
  unfold Member.whole Member.emit Member.nextTr trEvs
  cases h : m.todo with
  | nil => simp [List.filterMap_append]
  | cons e t => simp [List.filterMap_append]

theorem filter_map_set {β : Type} (p : Member → Bool) (g : Member → β) :
    ∀ (l : List Member) (i : Nat) (m m' : Member), l[i]? = some m → p m' = p m → g m' = g m →
      ((l.set i m').filter p).map g = (l.filter p).map g := by
  intro l
  induction l with
  | nil => intro i m m' h; simp at h
  | cons x l ih =>
    intro i m m' h hp hg
    cases i with
    | zero =>
      simp at h; subst h
      simp only [List.set_cons_zero, List.filter_cons, hp]
      split <;> simp [hg]
    | succ i =>
      simp at h
      simp only [List.set_cons_succ, List.filter_cons]
      split <;> simp [ih i m m' h hp hg]

/-- the streams of the members `StartAll` has started, in order -/
def startedStreams (s : State) : List (List Ev) := (s.members.filter (·.origin.isNone)).map Member.whole

/-- `StartAll` starts the executable processes in order, each with its own stream; whatever a member has emitted
and has still to emit is that stream, whatever the rest of the set does -/
theorem started_streams {cfg : Cfg} {su : Setup} :
    ∀ s, Reach cfg su s → startedStreams s ++ s.toStart = su.execs := by
  apply reach_induction
  · simp [init, startedStreams]
  · intro s c s' hr ih h
    unfold startedStreams at ih ⊢
    have upd : ∀ (i : Nat) (m m' : Member), s.members[i]? = some m → m'.origin = m.origin → m'.whole = m.whole →
        ((s.members.set i m').filter (·.origin.isNone)).map Member.whole =
          (s.members.filter (·.origin.isNone)).map Member.whole :=
      fun i m m' hm ho hw => filter_map_set _ _ _ i m m' hm (by rw [ho]) hw
    have reg : ∀ (i : Nat) (b : Bool), ((regMember s.members i b).filter (·.origin.isNone)).map Member.whole =
        (s.members.filter (·.origin.isNone)).map Member.whole := by
      intro i b
      unfold regMember
      split
      · next m hm => exact upd i m { m with counted := true, lateJoin := b } hm rfl rfl
      · rfl
    cases h
    case saStart str rest hp h1 h2 hfl =>
      rw [h1] at ih
      simpa [List.filter_append, Member.whole, trEvs] using ih
    case saStartReg str rest hp h1 h2 hfl =>
      rw [h1] at ih
      simpa [List.filter_append, Member.whole, trEvs] using ih
    case saRegister i hp h1 => simp only; rw [reg]; exact ih
    case proc i m hp hm hc hb => simp only; rw [upd i m m.emit hm rfl (whole_emit m)]; exact ih
    case subscribe i m hp hm hc hs => simp only; rw [upd i m { m with subscribed := true } hm rfl rfl]; exact ih
    case watchTau i m q hp hm hc hs hf hq => simp only; rw [upd i m { m with queue := q } hm rfl rfl]; exact ih
    case watchThrow i m tid q hp hm hc hs hf hq => simp only; rw [upd i m { m with queue := q } hm rfl rfl]; exact ih
    case watchListen i m c q hp hm hc hs hf hq => simp only; rw [upd i m { m with queue := q } hm rfl rfl]; exact ih
    case watchCease i m q hp hm hc hs hf hq =>
      simp only; rw [upd i m { m with queue := q, finished := true } hm rfl rfl]; exact ih
    case runInst tid rest str hp ha hr' hm hro hfl => simpa [List.filter_append] using ih
    case runInstReg tid rest str hp ha hr' hm hro hfl => simpa [List.filter_append] using ih
    case runRegister i hp h1 => simp only; rw [reg]; exact ih
    case waker k wk hp hk hr' hd =>
      simp only
      unfold unblock
      split
      · next m hm =>
        split
        · rw [upd _ m { m with blocked := none } hm rfl rfl]; exact ih
        · exact ih
      · exact ih
    all_goals exact ih

/-- a member instantiated for throw event `id` runs the stream of the waiting process the message flow of `id` points to -/
theorem instance_streams {cfg : Cfg} {su : Setup} :
    ∀ s, Reach cfg su s → ∀ m ∈ s.members, ∀ id, m.origin = some id →
      ∃ w, su.target id = some (.start w) ∧ su.waitings[w]? = some m.whole := by
  apply reach_induction
  · simp [init]
  · intro s c s' hr ih h
    have keep : ∀ (i : Nat) (m m' : Member), s.members[i]? = some m → m'.origin = m.origin → m'.whole = m.whole →
        ∀ x ∈ s.members.set i m', ∀ id, x.origin = some id →
          ∃ w, su.target id = some (.start w) ∧ su.waitings[w]? = some x.whole := by
      intro i m m' hm ho hw
      refine forall_set ih ?_
      intro id hid
      rw [hw]
      exact ih m (List.mem_of_getElem? hm) id (ho ▸ hid)
    cases h
    case saStart => exact forall_append_one ih (by simp)
    case saStartReg => exact forall_append_one ih (by simp)
    case saRegister => exact forall_regMember ih (fun m _ hm => hm)
    case proc i m hp hm hc hb => exact keep i m m.emit hm rfl (whole_emit m)
    case subscribe i m hp hm hc hs => exact keep i m { m with subscribed := true } hm rfl rfl
    case watchTau i m q hp hm hc hs hf hq => exact keep i m { m with queue := q } hm rfl rfl
    case watchThrow i m tid q hp hm hc hs hf hq => exact keep i m { m with queue := q } hm rfl rfl
    case watchListen i m c q hp hm hc hs hf hq => exact keep i m { m with queue := q } hm rfl rfl
    case watchCease i m q hp hm hc hs hf hq => exact keep i m { m with queue := q, finished := true } hm rfl rfl
    case runInst tid rest str hp ha hr' hm hro hfl =>
      refine forall_append_one ih ?_
      intro id hid
      simp only [Option.some.injEq] at hid
      subst hid
      obtain ⟨w, h1, h2⟩ := route_inst hro
      exact ⟨w, h1, by simpa [Member.whole, trEvs] using h2⟩
    case runInstReg tid rest str hp ha hr' hm hro hfl =>
      refine forall_append_one ih ?_
      intro id hid
      simp only [Option.some.injEq] at hid
      subst hid
      obtain ⟨w, h1, h2⟩ := route_inst hro
      exact ⟨w, h1, by simpa [Member.whole, trEvs] using h2⟩
    case runRegister => exact forall_regMember ih (fun m _ hm => hm)
    case waker => exact forall_unblock ih (fun m _ hm => hm)
    all_goals exact ih

/-! ## wake-up goroutines: a pending one belongs to a member that still waits at its catch event -/

def isListen : Tr → Bool
  | .ev (.listen _) => true
  | _ => false

structure WakerInv (s : State) : Prop where
  /-- a listening trace in a watcher's channel: its process waits at that catch event -/
  l1 : ∀ (i : Nat) (m : Member) (c : Nat), s.members[i]? = some m → Tr.ev (.listen c) ∈ m.queue → m.blocked = some c
  /-- at most one listening trace per channel -/
  l2 : ∀ (i : Nat) (m : Member), s.members[i]? = some m → (m.queue.filter isListen).length ≤ 1
  /-- a pending waker: its process waits at its catch event -/
  k1 : ∀ (k : Nat) (wk : Waker), s.wakers[k]? = some wk → wk.done = false →
        ∃ m, s.members[wk.member]? = some m ∧ m.blocked = some wk.c
  /-- at most one pending waker per member -/
  k2 : ∀ (k k' : Nat) (wk wk' : Waker), s.wakers[k]? = some wk → s.wakers[k']? = some wk' → wk.done = false →
        wk'.done = false → wk.member = wk'.member → k = k'
  /-- a listening trace still in the channel: no pending waker for that member yet -/
  k3 : ∀ (i : Nat) (m : Member), s.members[i]? = some m → (∃ t ∈ m.queue, isListen t = true) →
        ∀ (k : Nat) (wk : Waker), s.wakers[k]? = some wk → wk.member = i → wk.done = true

/-- an update of member `i` that keeps `blocked` and does not add to its channel; wakers untouched -/
theorem wakerInv_frame {s : State} (inv : WakerInv s) {i : Nat} {m m' : Member} (hm : s.members[i]? = some m)
    (hb : m'.blocked = m.blocked) (hq : ∀ t, t ∈ m'.queue → t ∈ m.queue)
    (hl : (m'.queue.filter isListen).length ≤ (m.queue.filter isListen).length)
    {ms : List Member} (hms : ms = s.members.set i m') {wks : List Waker} (hw : wks = s.wakers)
    {s' : State} (h1 : s'.members = ms) (h2 : s'.wakers = wks) : WakerInv s' := by
  subst hms hw
  have get : ∀ (j : Nat) (x : Member), s'.members[j]? = some x → (j = i ∧ x = m') ∨ (j ≠ i ∧ s.members[j]? = some x) := by
    intro j x hj
    rw [h1, getElem?_set_of hm] at hj
    split at hj
    · next h => cases hj; exact Or.inl ⟨h, rfl⟩
    · next h => exact Or.inr ⟨h, hj⟩
  constructor
  · intro j x c hj hc
    rcases get j x hj with ⟨rfl, rfl⟩ | ⟨_, hj'⟩
    · rw [hb]; exact inv.l1 _ m c hm (hq _ hc)
    · exact inv.l1 j x c hj' hc
  · intro j x hj
    rcases get j x hj with ⟨rfl, rfl⟩ | ⟨_, hj'⟩
    · exact Nat.le_trans hl (inv.l2 _ m hm)
    · exact inv.l2 j x hj'
  · intro k wk hk hd
    rw [h2] at hk
    obtain ⟨x, hx, hxb⟩ := inv.k1 k wk hk hd
    rw [h1, getElem?_set_of hm]
    by_cases hji : wk.member = i
    · rw [hji] at hx; rw [hm] at hx; cases hx
      exact ⟨m', by simp [hji], by rw [hb]; exact hxb⟩
    · exact ⟨x, by simp [hji, hx], hxb⟩
  · intro k k' wk wk' hk hk'
    rw [h2] at hk hk'
    exact inv.k2 k k' wk wk' hk hk'
  · intro j x hj hex k wk hk hmem
    rw [h2] at hk
    rcases get j x hj with ⟨rfl, rfl⟩ | ⟨_, hj'⟩
    · obtain ⟨t, ht, htl⟩ := hex
      exact inv.k3 _ m hm ⟨t, hq t ht, htl⟩ k wk hk hmem
    · exact inv.k3 j x hj' hex k wk hk hmem

/-- a new member with an empty channel -/
theorem wakerInv_append {s : State} (inv : WakerInv s) {x : Member} (hx : x.queue = [])
    {s' : State} (h1 : s'.members = s.members ++ [x]) (h2 : s'.wakers = s.wakers) : WakerInv s' := by
  have get : ∀ (j : Nat) (y : Member), s'.members[j]? = some y → y = x ∨ s.members[j]? = some y := by
    intro j y hj
    rw [h1, getElem?_append_new] at hj
    split at hj
    · exact Or.inr hj
    · split at hj
      · cases hj; exact Or.inl rfl
      · cases hj
  constructor
  · intro j y c hj hc
    rcases get j y hj with rfl | hj'
    · rw [hx] at hc; cases hc
    · exact inv.l1 j y c hj' hc
  · intro j y hj
    rcases get j y hj with rfl | hj'
    · simp [hx]
    · exact inv.l2 j y hj'
  · intro k wk hk hd
    rw [h2] at hk
    obtain ⟨y, hy, hyb⟩ := inv.k1 k wk hk hd
    exact ⟨y, by rw [h1]; exact getElem?_append_old hy _, hyb⟩
  · intro k k' wk wk' hk hk'
    rw [h2] at hk hk'
    exact inv.k2 k k' wk wk' hk hk'
  · intro j y hj hex k wk hk hmem
    rw [h2] at hk
    rcases get j y hj with rfl | hj'
    · obtain ⟨t, ht, _⟩ := hex; rw [hx] at ht; cases ht
    · exact inv.k3 j y hj' hex k wk hk hmem

theorem wakerInv_regMember {s : State} (inv : WakerInv s) (i : Nat) (b : Bool)
    {s' : State} (h1 : s'.members = regMember s.members i b) (h2 : s'.wakers = s.wakers) : WakerInv s' := by
  unfold regMember at h1
  split at h1
  · next m hm =>
    exact wakerInv_frame inv hm (m' := { m with counted := true, lateJoin := b }) rfl (fun _ h => h) (Nat.le_refl _) rfl rfl h1 h2
  · exact ⟨by rw [h1]; exact inv.l1, by rw [h1]; exact inv.l2, by rw [h1, h2]; exact inv.k1, by rw [h2]; exact inv.k2,
      by rw [h1, h2]; exact inv.k3⟩

theorem filter_isListen_tail {t : Tr} {q : List Tr} : (q.filter isListen).length ≤ ((t :: q).filter isListen).length := by
  simp only [List.filter_cons]; split <;> simp

theorem wakerInv_inv {cfg : Cfg} {su : Setup} : ∀ s, Reach cfg su s → WakerInv s := by
  apply reach_induction
  · exact ⟨by simp [init], by simp [init], by simp [init], by simp [init], by simp [init]⟩
  · intro s c s' hr inv h
    have same : ∀ s' : State, s'.members = s.members → s'.wakers = s.wakers → WakerInv s' := by
      intro s' h1 h2
      exact ⟨by rw [h1]; exact inv.l1, by rw [h1]; exact inv.l2, by rw [h1, h2]; exact inv.k1, by rw [h2]; exact inv.k2,
        by rw [h1, h2]; exact inv.k3⟩
    cases h
    case saStart => exact wakerInv_append inv rfl rfl rfl
    case saStartReg => exact wakerInv_append inv rfl rfl rfl
    case saRegister i hp h1 => exact wakerInv_regMember inv i _ rfl rfl
    case runInst => exact wakerInv_append inv rfl rfl rfl
    case runInstReg => exact wakerInv_append inv rfl rfl rfl
    case runRegister i hp h1 => exact wakerInv_regMember inv i _ rfl rfl
    case subscribe i m hp hm hc hs =>
      exact wakerInv_frame inv hm (m' := { m with subscribed := true }) rfl (fun _ h => h) (Nat.le_refl _) rfl rfl rfl rfl
    case watchTau i m q hp hm hc hs hf hq =>
      exact wakerInv_frame inv hm (m' := { m with queue := q }) rfl (fun t h => by rw [hq]; exact List.mem_cons_of_mem _ h)
        (by rw [hq]; exact filter_isListen_tail) rfl rfl rfl rfl
    case watchThrow i m tid q hp hm hc hs hf hq =>
      exact wakerInv_frame inv hm (m' := { m with queue := q }) rfl (fun t h => by rw [hq]; exact List.mem_cons_of_mem _ h)
        (by rw [hq]; exact filter_isListen_tail) rfl rfl rfl rfl
    case watchCease i m q hp hm hc hs hf hq =>
      exact wakerInv_frame inv hm (m' := { m with queue := q, finished := true }) rfl
        (fun t h => by rw [hq]; exact List.mem_cons_of_mem _ h) (by rw [hq]; exact filter_isListen_tail) rfl rfl rfl rfl
    case runDrop => exact same _ rfl rfl
    case runDone => exact same _ rfl rfl
    case waitCall => exact same _ rfl rfl
    case closeFirst => exact same _ rfl rfl
    case closeGuarded => exact same _ rfl rfl
    case closeAgain => exact same _ rfl rfl
    case waitReturn => exact same _ rfl rfl
    case waitTimeout => exact same _ rfl rfl
    case runWake tid rest c k wk hp ha hr' hm hro =>
      have hk := (route_wake hro).1
      have get : ∀ (j : Nat) (x : Waker), (s.wakers.set k { wk with ready := true })[j]? = some x →
          ∃ y : Waker, s.wakers[j]? = some y ∧ x.c = y.c ∧ x.member = y.member ∧ x.done = y.done := by
        intro j x hj
        rw [getElem?_set_of hk] at hj
        split at hj
        · next h => cases hj; subst h; exact ⟨wk, hk, rfl, rfl, rfl⟩
        · exact ⟨x, hj, rfl, rfl, rfl⟩
      constructor
      · exact inv.l1
      · exact inv.l2
      · intro j x hj hd
        obtain ⟨y, hy, e1, e2, e3⟩ := get j x hj
        rw [e1, e2]; exact inv.k1 j y hy (e3 ▸ hd)
      · intro j j' x x' hj hj' hd hd' hmm
        obtain ⟨y, hy, _, e2, e3⟩ := get j x hj
        obtain ⟨y', hy', _, e2', e3'⟩ := get j' x' hj'
        exact inv.k2 j j' y y' hy hy' (e3 ▸ hd) (e3' ▸ hd') (by rw [← e2, ← e2']; exact hmm)
      · intro j x hj hex j' x' hj' hmm
        obtain ⟨y', hy', _, e2', e3'⟩ := get j' x' hj'
        rw [e3']; exact inv.k3 j x hj hex j' y' hy' (e2' ▸ hmm)
    case proc i m hp hm hc hb =>
      -- the process is not waiting at a catch event: no listening trace in its channel, no pending waker for it
      have noListen : ∀ c, Tr.ev (.listen c) ∉ m.queue := by
        intro c hcq
        have := inv.l1 i m c hm hcq
        rw [hb] at this; cases this
      have noFilter : m.queue.filter isListen = [] := by
        rw [List.filter_eq_nil_iff]
        intro t ht htl
        cases t with
        | cease => cases htl
        | ev e =>
          cases e with
          | listen c => exact noListen c ht
          | tau => cases htl
          | throw _ => cases htl
      have noWaker : ∀ (k : Nat) (wk : Waker), s.wakers[k]? = some wk → wk.done = false → wk.member ≠ i := by
        intro k wk hk hd hmem
        obtain ⟨x, hx, hxb⟩ := inv.k1 k wk hk hd
        rw [hmem, hm] at hx; cases hx
        rw [hb] at hxb; cases hxb
      have get : ∀ (j : Nat) (x : Member), (s.members.set i m.emit)[j]? = some x → (j = i ∧ x = m.emit) ∨ (j ≠ i ∧ s.members[j]? = some x) := by
        intro j x hj
        rw [getElem?_set_of hm] at hj
        split at hj
        · next h => cases hj; exact Or.inl ⟨h, rfl⟩
        · next h => exact Or.inr ⟨h, hj⟩
      have qmem : ∀ t, t ∈ m.emit.queue → t ∈ m.queue ∨ t = m.nextTr := by
        intro t ht
        unfold Member.emit at ht
        simp only at ht
        split at ht
        · simp only [List.mem_append, List.mem_singleton] at ht; exact ht
        · exact Or.inl ht
      constructor
      · intro j x c hj hcq
        rcases get j x hj with ⟨rfl, rfl⟩ | ⟨_, hj'⟩
        · rcases qmem _ hcq with h | h
          · exact absurd h (noListen c)
          · unfold Member.emit; simp only; rw [← h]
        · exact inv.l1 j x c hj' hcq
      · intro j x hj
        rcases get j x hj with ⟨rfl, rfl⟩ | ⟨_, hj'⟩
        · unfold Member.emit
          simp only
          split
          · rw [List.filter_append, noFilter]; simp only [List.nil_append, List.filter_cons, List.filter_nil]; split <;> simp
          · rw [noFilter]; simp
        · exact inv.l2 j x hj'
      · intro k wk hk hd
        obtain ⟨x, hx, hxb⟩ := inv.k1 k wk hk hd
        have hne := noWaker k wk hk hd
        exact ⟨x, by rw [getElem?_set_of hm]; simp [hne, hx], hxb⟩
      · exact inv.k2
      · intro j x hj hex k wk hk hmem
        rcases get j x hj with ⟨rfl, rfl⟩ | ⟨_, hj'⟩
        · cases hd : wk.done with
          | true => rfl
          | false => exact absurd hmem (noWaker k wk hk hd)
        · exact inv.k3 j x hj' hex k wk hk hmem
    case watchListen i m c q hp hm hc hs hf hq =>
      have hblk : m.blocked = some c := inv.l1 i m c hm (by rw [hq]; exact List.mem_cons_self)
      have hqn : q.filter isListen = [] := by
        have := inv.l2 i m hm
        rw [hq] at this
        simp only [List.filter_cons, isListen, if_true, List.length_cons] at this
        exact List.eq_nil_of_length_eq_zero (by omega)
      have allDone : ∀ (k : Nat) (wk : Waker), s.wakers[k]? = some wk → wk.member = i → wk.done = true :=
        inv.k3 i m hm ⟨_, by rw [hq]; exact List.mem_cons_self, rfl⟩
      have getm : ∀ (j : Nat) (x : Member), (s.members.set i { m with queue := q })[j]? = some x →
          (j = i ∧ x = { m with queue := q }) ∨ (j ≠ i ∧ s.members[j]? = some x) := by
        intro j x hj
        rw [getElem?_set_of hm] at hj
        split at hj
        · next h => cases hj; exact Or.inl ⟨h, rfl⟩
        · next h => exact Or.inr ⟨h, hj⟩
      have getw : ∀ (k : Nat) (wk : Waker), (s.wakers ++ [({ c := c, member := i } : Waker)])[k]? = some wk →
          s.wakers[k]? = some wk ∨ (k = s.wakers.length ∧ wk = { c := c, member := i }) := by
        intro k wk hk
        rw [getElem?_append_new] at hk
        split at hk
        · exact Or.inl hk
        · split at hk
          · next h => cases hk; exact Or.inr ⟨h, rfl⟩
          · cases hk
      constructor
      · intro j x c' hj hcq
        rcases getm j x hj with ⟨rfl, rfl⟩ | ⟨_, hj'⟩
        · exact inv.l1 _ m c' hm (by rw [hq]; exact List.mem_cons_of_mem _ hcq)
        · exact inv.l1 j x c' hj' hcq
      · intro j x hj
        rcases getm j x hj with ⟨rfl, rfl⟩ | ⟨_, hj'⟩
        · simp [hqn]
        · exact inv.l2 j x hj'
      · intro k wk hk hd
        rcases getw k wk hk with hk' | ⟨_, rfl⟩
        · obtain ⟨x, hx, hxb⟩ := inv.k1 k wk hk' hd
          rw [getElem?_set_of hm]
          by_cases hji : wk.member = i
          · rw [hji, hm] at hx; cases hx
            exact ⟨{ m with queue := q }, by simp [hji], hxb⟩
          · exact ⟨x, by simp [hji, hx], hxb⟩
        · exact ⟨{ m with queue := q }, by rw [getElem?_set_of hm]; simp, hblk⟩
      · intro k k' wk wk' hk hk' hd hd' hmm
        rcases getw k wk hk with h1 | ⟨e1, rfl⟩ <;> rcases getw k' wk' hk' with h2 | ⟨e2, rfl⟩
        · exact inv.k2 k k' wk wk' h1 h2 hd hd' hmm
        · have := allDone k wk h1 hmm; rw [hd] at this; cases this
        · have := allDone k' wk' h2 hmm.symm; rw [hd'] at this; cases this
        · rw [e1, e2]
      · intro j x hj hex k wk hk hmem
        rcases getm j x hj with ⟨rfl, rfl⟩ | ⟨hji, hj'⟩
        · obtain ⟨t, ht, htl⟩ := hex
          have : t ∈ q.filter isListen := List.mem_filter.mpr ⟨ht, htl⟩
          rw [hqn] at this; cases this
        · rcases getw k wk hk with hk' | ⟨_, rfl⟩
          · exact inv.k3 j x hj' hex k wk hk' hmem
          · exact absurd hmem.symm hji
    case waker k wk hp hk hr' hd =>
      -- the member of the firing waker has no listening trace in its channel and no other pending waker
      have getw : ∀ (j : Nat) (x : Waker), (s.wakers.set k { wk with done := true })[j]? = some x →
          (j = k ∧ x = { wk with done := true }) ∨ (j ≠ k ∧ s.wakers[j]? = some x) := by
        intro j x hj
        rw [getElem?_set_of hk] at hj
        split at hj
        · next h => cases hj; exact Or.inl ⟨h, rfl⟩
        · next h => exact Or.inr ⟨h, hj⟩
      have getm : ∀ (j : Nat) (x : Member), (unblock s.members wk.member wk.c)[j]? = some x →
          ∃ y : Member, s.members[j]? = some y ∧ x.queue = y.queue ∧
            ((j = wk.member ∧ y.blocked = some wk.c ∧ x.blocked = none) ∨ x.blocked = y.blocked) := by
        intro j x hj
        rw [unblock_getElem?] at hj
        cases hy : s.members[j]? with
        | none => rw [hy] at hj; cases hj
        | some y =>
          rw [hy] at hj
          simp only [Option.map_some, Option.some.injEq] at hj
          refine ⟨y, rfl, ?_, ?_⟩
          · rw [← hj]; split <;> rfl
          · rw [← hj]
            split
            · next h => exact Or.inl ⟨h.1, h.2, rfl⟩
            · exact Or.inr rfl
      constructor
      · intro j x c hj hcq
        obtain ⟨y, hy, e1, e2⟩ := getm j x hj
        rw [e1] at hcq
        rcases e2 with ⟨hjm, _, _⟩ | e2
        · have := inv.k3 j y hy ⟨_, hcq, rfl⟩ k wk hk hjm.symm
          rw [hd] at this; cases this
        · rw [e2]; exact inv.l1 j y c hy hcq
      · intro j x hj
        obtain ⟨y, hy, e1, _⟩ := getm j x hj
        rw [e1]; exact inv.l2 j y hy
      · intro j x hj hdx
        rcases getw j x hj with ⟨_, rfl⟩ | ⟨hjk, hj'⟩
        · cases hdx
        · obtain ⟨y, hy, hyb⟩ := inv.k1 j x hj' hdx
          have hne : x.member ≠ wk.member := fun e => hjk (inv.k2 j k x wk hj' hk hdx hd e)
          refine ⟨y, ?_, hyb⟩
          rw [unblock_getElem?, hy]
          simp [hne]
      · intro j j' x x' hj hj' hdx hdx' hmm
        rcases getw j x hj with ⟨_, rfl⟩ | ⟨_, h1⟩
        · cases hdx
        · rcases getw j' x' hj' with ⟨_, rfl⟩ | ⟨_, h2⟩
          · cases hdx'
          · exact inv.k2 j j' x x' h1 h2 hdx hdx' hmm
      · intro j x hj hex j' x' hj' hmm
        obtain ⟨y, hy, e1, _⟩ := getm j x hj
        rw [e1] at hex
        rcases getw j' x' hj' with ⟨_, rfl⟩ | ⟨_, h2⟩
        · rfl
        · exact inv.k3 j y hy hex j' x' h2 hmm

/-- every member completed ⇒ no wake-up goroutine is left waiting -/
theorem wakers_done_of_all_ceased {cfg : Cfg} {su : Setup} (s : State) (hr : Reach cfg su s)
    (hall : ∀ m ∈ s.members, m.ceased = true) : ∀ wk ∈ s.wakers, wk.done = true := by
  intro wk hwk
  cases hd : wk.done with
  | true => rfl
  | false =>
    obtain ⟨k, hk⟩ := List.mem_iff_getElem?.mp hwk
    obtain ⟨m, hm, hb⟩ := (wakerInv_inv s hr).k1 k wk hk hd
    have hmem := List.mem_of_getElem? hm
    have := (memberOK_inv s hr m hmem).ceased_done (hall m hmem)
    rw [this.2] at hb; cases hb

/-! ## nothing follows the cease-flow trace in a watcher's channel -/

structure QueueOK (m : Member) : Prop where
  after_cease : ∀ q1 q2, m.queue = q1 ++ q2 → Tr.cease ∈ q1 → q2 = []
  fin_empty : m.finished = true → m.queue = []

theorem queueOK_inv {cfg : Cfg} {su : Setup} : ∀ s, Reach cfg su s → ∀ m ∈ s.members, QueueOK m := by
  apply reach_induction
  · simp [init]
  · intro s c s' hr ih h
    have hok := memberOK_inv s hr
    have pop : ∀ (m : Member) (t : Tr) (q : List Tr) (m' : Member), m ∈ s.members → m.queue = t :: q → m'.queue = q →
        m.finished = false → (m'.finished = true → t = .cease) → QueueOK m' := by
      intro m t q m' hmem hq hq' hf hfin
      have := ih m hmem
      constructor
      · intro q1 q2 e hc
        rw [hq'] at e
        exact this.after_cease (t :: q1) q2 (by rw [hq, e]; rfl) (List.mem_cons_of_mem _ hc)
      · intro hf'
        rw [hq']
        have ht := hfin hf'
        subst ht
        exact this.after_cease [.cease] q (by rw [hq]; rfl) (by simp)
    have fresh : ∀ m : Member, m.queue = [] → QueueOK m := by
      intro m hq
      refine ⟨?_, fun _ => hq⟩
      intro q1 q2 e hc
      rw [hq] at e
      have h1 : q1 = [] := (List.append_eq_nil_iff.mp e.symm).1
      rw [h1] at hc
      cases hc
    cases h
    case saStart => exact forall_append_one ih (fresh _ rfl)
    case saStartReg => exact forall_append_one ih (fresh _ rfl)
    case runInst => exact forall_append_one ih (fresh _ rfl)
    case runInstReg => exact forall_append_one ih (fresh _ rfl)
    case saRegister => exact forall_regMember ih (fun m _ hm => ⟨hm.after_cease, hm.fin_empty⟩)
    case runRegister => exact forall_regMember ih (fun m _ hm => ⟨hm.after_cease, hm.fin_empty⟩)
    case waker => exact forall_unblock ih (fun m _ hm => ⟨hm.after_cease, hm.fin_empty⟩)
    case subscribe i m hp hm hc hs =>
      have := ih m (List.mem_of_getElem? hm)
      exact forall_set ih ⟨this.after_cease, this.fin_empty⟩
    case watchTau i m q hp hm hc hs hf hq =>
      exact forall_set ih (pop m _ q { m with queue := q } (List.mem_of_getElem? hm) hq rfl hf (fun h => by rw [hf] at h; cases h))
    case watchThrow i m tid q hp hm hc hs hf hq =>
      exact forall_set ih (pop m _ q { m with queue := q } (List.mem_of_getElem? hm) hq rfl hf (fun h => by rw [hf] at h; cases h))
    case watchListen i m c q hp hm hc hs hf hq =>
      exact forall_set ih (pop m _ q { m with queue := q } (List.mem_of_getElem? hm) hq rfl hf (fun h => by rw [hf] at h; cases h))
    case watchCease i m q hp hm hc hs hf hq =>
      exact forall_set ih (pop m _ q { m with queue := q, finished := true } (List.mem_of_getElem? hm) hq rfl hf (fun _ => rfl))
    case proc i m hp hm hc hb =>
      have hmem := List.mem_of_getElem? hm
      have this := ih m hmem
      have hnc : Tr.cease ∉ m.queue := fun h => by
        have := (hok m hmem).cease_queue h
        rw [hc] at this; cases this
      have hnf : m.finished = false := by
        cases hf : m.finished with
        | false => rfl
        | true => have := (hok m hmem).fin_ceased hf; rw [hc] at this; cases this
      refine forall_set ih ⟨?_, ?_⟩
      · intro q1 q2 e hc1
        unfold Member.emit at e
        simp only at e
        split at e
        · -- subscribed: the new trace is the last one
          rcases List.eq_nil_or_concat q2 with h2 | ⟨q2', t, h2⟩
          · exact h2
          · exfalso
            rw [h2, List.concat_eq_append, ← List.append_assoc] at e
            have := List.append_inj_left' e (by simp)
            exact hnc (by rw [this]; exact List.mem_append_left _ hc1)
        · exfalso
          exact hnc (by rw [e]; exact List.mem_append_left _ hc1)
      · intro hf
        have : m.emit.finished = m.finished := rfl
        rw [this, hnf] at hf; cases hf
    all_goals exact ih

/-! ## waits called after `StartAll` has returned -/

structure EarlyInv (s : State) : Prop where
  /-- no call before `StartAll` returned: once there is a call, `StartAll` is through -/
  e1 : s.earlyWait = false → s.waits ≠ [] → s.toStart = [] ∧ s.saPending = none
  /-- `done` is closed by the goroutine of some call -/
  e2 : 1 ≤ s.closes → s.waits ≠ []
  /-- the member `run` is about to register was instantiated for a message -/
  po : ∀ i, s.runPending = some i → ∃ m, s.members[i]? = some m ∧ m.origin.isSome = true
  /-- a member registered after the close was instantiated for a message, or a call was made too early -/
  lj : ∀ m ∈ s.members, m.lateJoin = true → m.origin.isSome = true ∨ s.earlyWait = true
  /-- the member `StartAll` is about to register is an executable process -/
  so : ∀ i, s.saPending = some i → ∃ m, s.members[i]? = some m ∧ m.origin = none

theorem earlyInv_inv {cfg : Cfg} {su : Setup} : ∀ s, Reach cfg su s → EarlyInv s := by
  apply reach_induction
  · exact ⟨by simp [init], by simp [init], by simp [init], by simp [init], by simp [init]⟩
  · intro s c s' hr inv h
    -- an update of one member that keeps `origin` and `lateJoin`; everything else of interest untouched
    have upd : ∀ (i : Nat) (m m' : Member) (s' : State), s.members[i]? = some m → m'.origin = m.origin →
        m'.lateJoin = m.lateJoin → s'.members = s.members.set i m' → s'.earlyWait = s.earlyWait → s'.waits = s.waits →
        s'.toStart = s.toStart → s'.saPending = s.saPending → s'.closes = s.closes → s'.runPending = s.runPending →
        EarlyInv s' := by
      intro i m m' s' hm ho hl h1 h2 h3 h4 h5 h6 h7
      have get : ∀ (j : Nat) (x : Member), s.members[j]? = some x → ∃ x' : Member, s'.members[j]? = some x' ∧ x'.origin = x.origin := by
        intro j x hj
        rw [h1, getElem?_set_of hm]
        by_cases hji : j = i
        · subst hji; rw [hm] at hj; cases hj; exact ⟨m', by simp, ho⟩
        · exact ⟨x, by simp [hji, hj], rfl⟩
      refine ⟨by rw [h2, h3, h4, h5]; exact inv.e1, by rw [h6, h3]; exact inv.e2, ?_, ?_, ?_⟩
      · intro j hj
        rw [h7] at hj
        obtain ⟨x, hx, hxo⟩ := inv.po j hj
        obtain ⟨x', hx', e⟩ := get j x hx
        exact ⟨x', hx', by rw [e]; exact hxo⟩
      · rw [h1, h2]
        refine forall_set inv.lj ?_
        intro hlj
        rw [ho]; exact inv.lj m (List.mem_of_getElem? hm) (hl ▸ hlj)
      · intro j hj
        rw [h5] at hj
        obtain ⟨x, hx, hxo⟩ := inv.so j hj
        obtain ⟨x', hx', e⟩ := get j x hx
        exact ⟨x', hx', by rw [e]; exact hxo⟩
    -- steps that touch none of the fields the invariant talks about
    have same : ∀ s' : State, s'.members = s.members → s'.earlyWait = s.earlyWait → s'.waits = s.waits →
        s'.toStart = s.toStart → s'.saPending = s.saPending → s'.closes = s.closes → s'.runPending = s.runPending →
        EarlyInv s' := by
      intro s' h1 h2 h3 h4 h5 h6 h7
      exact ⟨by rw [h2, h3, h4, h5]; exact inv.e1, by rw [h6, h3]; exact inv.e2, by rw [h7, h1]; exact inv.po,
        by rw [h1, h2]; exact inv.lj, by rw [h5, h1]; exact inv.so⟩
    cases h
    case saStart str rest hp h1 h2 hfl =>
      refine ⟨?_, inv.e2, ?_, ?_, ?_⟩
      · intro he hw
        have := (inv.e1 he hw).1
        rw [h1] at this; cases this
      · intro i hi
        obtain ⟨m, hm, ho⟩ := inv.po i hi
        exact ⟨m, getElem?_append_old hm _, ho⟩
      · exact forall_append_one inv.lj (by simp)
      · intro i hi
        simp only [Option.some.injEq] at hi
        subst hi
        exact ⟨{ todo := str, subscribed := cfg.subBeforeStart }, by simp, rfl⟩
    case saStartReg str rest hp h1 h2 hfl =>
      refine ⟨?_, inv.e2, ?_, ?_, by simp⟩
      · intro he hw
        have := (inv.e1 he hw).1
        rw [h1] at this; cases this
      · intro i hi
        obtain ⟨m, hm, ho⟩ := inv.po i hi
        exact ⟨m, getElem?_append_old hm _, ho⟩
      · refine forall_append_one inv.lj ?_
        intro hlj
        simp only [decide_eq_true_eq] at hlj
        refine Or.inr ?_
        cases he : s.earlyWait with
        | true => rfl
        | false =>
          have := (inv.e1 he (inv.e2 hlj)).1
          rw [h1] at this; cases this
    case saRegister i hp h1 =>
      obtain ⟨m0, hm0, ho0⟩ := inv.so i h1
      refine ⟨?_, inv.e2, ?_, ?_, by simp⟩
      · intro he hw
        have := (inv.e1 he hw).2
        rw [h1] at this; cases this
      · intro j hj
        obtain ⟨m, hm, ho⟩ := inv.po j hj
        rw [regMember_getElem?]
        by_cases hji : j = i
        · subst hji; rw [hm]; exact ⟨{ m with counted := true, lateJoin := decide (1 ≤ s.closes) }, by simp, ho⟩
        · exact ⟨m, by simp [hji, hm], ho⟩
      · refine forall_regMember inv.lj ?_
        intro m hmem hP hlj
        simp only [decide_eq_true_eq] at hlj
        refine Or.inr ?_
        cases he : s.earlyWait with
        | true => rfl
        | false =>
          have := (inv.e1 he (inv.e2 hlj)).2
          rw [h1] at this; cases this
    case proc i m hp hm hc hb => exact upd i m m.emit _ hm rfl rfl rfl rfl rfl rfl rfl rfl rfl
    case subscribe i m hp hm hc hs => exact upd i m { m with subscribed := true } _ hm rfl rfl rfl rfl rfl rfl rfl rfl rfl
    case watchTau i m q hp hm hc hs hf hq => exact upd i m { m with queue := q } _ hm rfl rfl rfl rfl rfl rfl rfl rfl rfl
    case watchThrow i m tid q hp hm hc hs hf hq => exact upd i m { m with queue := q } _ hm rfl rfl rfl rfl rfl rfl rfl rfl rfl
    case watchListen i m c q hp hm hc hs hf hq => exact upd i m { m with queue := q } _ hm rfl rfl rfl rfl rfl rfl rfl rfl rfl
    case watchCease i m q hp hm hc hs hf hq =>
      exact upd i m { m with queue := q, finished := true } _ hm rfl rfl rfl rfl rfl rfl rfl rfl rfl
    case runInst tid rest str hp ha hr' hm hro hfl =>
      refine ⟨inv.e1, inv.e2, ?_, forall_append_one inv.lj (by simp), ?_⟩
      · intro i hi
        simp only [Option.some.injEq] at hi
        subst hi
        exact ⟨{ todo := str, origin := some tid, subscribed := cfg.instSubBeforeStart }, by simp, rfl⟩
      · intro i hi
        obtain ⟨m, hm, ho⟩ := inv.so i hi
        exact ⟨m, getElem?_append_old hm _, ho⟩
    case runInstReg tid rest str hp ha hr' hm hro hfl =>
      refine ⟨inv.e1, inv.e2, by simp, forall_append_one inv.lj (by simp), ?_⟩
      intro i hi
      obtain ⟨m, hm, ho⟩ := inv.so i hi
      exact ⟨m, getElem?_append_old hm _, ho⟩
    case runWake => exact same _ rfl rfl rfl rfl rfl rfl rfl
    case runDrop => exact same _ rfl rfl rfl rfl rfl rfl rfl
    case runRegister i hp h1 =>
      obtain ⟨m0, hm0, ho0⟩ := inv.po i h1
      refine ⟨inv.e1, inv.e2, by simp, ?_, ?_⟩
      · unfold regMember
        simp only
        rw [hm0]
        refine forall_set inv.lj ?_
        intro _
        exact Or.inl ho0
      · intro j hj
        obtain ⟨m, hm, ho⟩ := inv.so j hj
        rw [regMember_getElem?]
        by_cases hji : j = i
        · subst hji; rw [hm]; exact ⟨{ m with counted := true, lateJoin := decide (1 ≤ s.closes) }, by simp, ho⟩
        · exact ⟨m, by simp [hji, hm], ho⟩
    case runDone => exact same _ rfl rfl rfl rfl rfl rfl rfl
    case waker k wk hp hk hr' hd =>
      have get : ∀ (j : Nat) (x : Member), s.members[j]? = some x →
          ∃ x' : Member, (unblock s.members wk.member wk.c)[j]? = some x' ∧ x'.origin = x.origin := by
        intro j x hj
        rw [unblock_getElem?, hj]
        simp only [Option.map_some]
        split <;> exact ⟨_, rfl, rfl⟩
      refine ⟨inv.e1, inv.e2, ?_, forall_unblock inv.lj (fun m _ hm => hm), ?_⟩
      · intro j hj
        obtain ⟨x, hx, hxo⟩ := inv.po j hj
        obtain ⟨x', hx', e⟩ := get j x hx
        exact ⟨x', hx', by rw [e]; exact hxo⟩
      · intro j hj
        obtain ⟨x, hx, hxo⟩ := inv.so j hj
        obtain ⟨x', hx', e⟩ := get j x hx
        exact ⟨x', hx', by rw [e]; exact hxo⟩
    case waitCall hp =>
      refine ⟨?_, fun _ => by simp, inv.po, ?_, inv.so⟩
      · intro he _
        simp only [Bool.or_eq_false_iff, Bool.not_eq_eq_eq_not, Bool.not_false, List.isEmpty_iff,
          Option.isSome_eq_false_iff, Option.isNone_iff_eq_none] at he
        exact ⟨he.1.2, he.2⟩
      · intro m hm hlj
        rcases inv.lj m hm hlj with h | h
        · exact Or.inl h
        · exact Or.inr (by simp [h])
    case closeFirst w wt hp hw hd hwg hc0 =>
      refine ⟨?_, ?_, inv.po, inv.lj, inv.so⟩
      · intro he hne
        exact inv.e1 he (by
          intro hnil
          rw [hnil] at hw; cases hw)
      · intro _ hnil
        have hl := congrArg List.length hnil
        simp only [List.length_set, List.length_nil] at hl
        have := lt_length_of_getElem? hw
        omega
    case closeGuarded w wt hp hw hd hwg hc0 ho =>
      refine ⟨?_, ?_, inv.po, inv.lj, inv.so⟩
      · intro he hne
        exact inv.e1 he (by intro hnil; rw [hnil] at hw; cases hw)
      · intro _ hnil
        have hl := congrArg List.length hnil
        simp only [List.length_set, List.length_nil] at hl
        have := lt_length_of_getElem? hw
        omega
    case closeAgain w wt hp hw hd hwg hc0 ho =>
      refine ⟨?_, ?_, inv.po, inv.lj, inv.so⟩
      · intro he hne
        exact inv.e1 he (by intro hnil; rw [hnil] at hw; cases hw)
      · intro _ hnil
        have hl := congrArg List.length hnil
        simp only [List.length_set, List.length_nil] at hl
        have := lt_length_of_getElem? hw
        omega
    case waitReturn w wt hp hw hres hc =>
      refine ⟨?_, ?_, inv.po, inv.lj, inv.so⟩
      · intro he hne
        exact inv.e1 he (by intro hnil; rw [hnil] at hw; cases hw)
      · intro _ hnil
        have hl := congrArg List.length hnil
        simp only [List.length_set, List.length_nil] at hl
        have := lt_length_of_getElem? hw
        omega
    case waitTimeout w wt hp hw hres =>
      refine ⟨?_, ?_, inv.po, inv.lj, inv.so⟩
      · intro he hne
        exact inv.e1 he (by intro hnil; rw [hnil] at hw; cases hw)
      · intro _ hnil
        have hl := congrArg List.length hnil
        simp only [List.length_set, List.length_nil] at hl
        have := lt_length_of_getElem? hw
        omega

end Bpmn.Model.ProcessSet
