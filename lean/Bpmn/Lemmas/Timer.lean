import Bpmn.Model.Timer
/-! Helper lemmas for C13: the mock clock's operations in terms of membership, and the two
inductive invariants of the timer machine (`Book`: bookkeeping of phases and counts, no clock
reasoning; `Timing`: what is known about the channels the goroutine waits on). -/
namespace Bpmn.Lemmas.Timer
open Bpmn.Model.Timer

/-! ## mock clock -/

theorem mem_insertDue (x y : Int × Nat) (l : List (Int × Nat)) :
    y ∈ insertDue x l ↔ y = x ∨ y ∈ l := by
  induction l with
  | nil => simp [insertDue]
  | cons z zs ih =>
    unfold insertDue
    split
    · simp
    · simp [ih]; constructor
      · rintro (h | h | h) <;> simp [h]
      · rintro (h | h | h) <;> simp [h]

theorem mem_sortDue (y : Int × Nat) (l : List (Int × Nat)) : y ∈ sortDue l ↔ y ∈ l := by
  induction l with
  | nil => simp [sortDue]
  | cons z zs ih => simp [sortDue, mem_insertDue, ih]

theorem until_next (m : Mock) (t : Int) : (m.until t).1.next = m.next + 1 := by
  unfold Mock.until; split <;> rfl

theorem until_id (m : Mock) (t : Int) : (m.until t).2 = m.next := by
  unfold Mock.until; split <;> rfl

theorem until_now (m : Mock) (t : Int) : (m.until t).1.now = m.now := by
  unfold Mock.until; split <;> rfl

theorem mem_until_box (m : Mock) (t : Int) (e : Nat × Int) :
    e ∈ (m.until t).1.box ↔ e ∈ m.box ∨ (t ≤ m.now ∧ e = (m.next, m.now)) := by
  unfold Mock.until; split <;> simp [*]

theorem mem_until_timers (m : Mock) (t : Int) (e : Int × Nat) :
    e ∈ (m.until t).1.timers ↔ e ∈ m.timers ∨ (¬ t ≤ m.now ∧ e = (t, m.next)) := by
  unfold Mock.until; split <;> simp [*]

theorem set_next (m : Mock) (t : Int) : (m.set t).next = m.next := rfl
theorem set_now (m : Mock) (t : Int) : (m.set t).now = t := rfl

theorem mem_set_timers (m : Mock) (t : Int) (e : Int × Nat) :
    e ∈ (m.set t).timers ↔ e ∈ m.timers ∧ ¬ e.1 ≤ t := by
  simp [Mock.set, mem_sortDue]

theorem mem_set_box (m : Mock) (t : Int) (e : Nat × Int) :
    e ∈ (m.set t).box ↔ e ∈ m.box ∨ (e.2 = t ∧ ∃ x, (x, e.1) ∈ m.timers ∧ x ≤ t) := by
  obtain ⟨c, v⟩ := e
  simp only [Mock.set, Mock.dueAt, List.mem_append, List.mem_map, List.mem_filter, mem_sortDue,
    decide_eq_true_eq, Prod.mk.injEq]
  constructor
  · rintro (h | ⟨⟨x, c'⟩, ⟨hm, hx⟩, hc, hv⟩)
    · exact Or.inl h
    · subst hc; exact Or.inr ⟨hv.symm, x, hm, hx⟩
  · rintro (h | ⟨hv, x, hm, hx⟩)
    · exact Or.inl h
    · exact Or.inr ⟨(x, c), ⟨hm, hx⟩, rfl, hv.symm⟩

theorem take_next (m : Mock) (c : Nat) : (m.take c).next = m.next := rfl
theorem take_now (m : Mock) (c : Nat) : (m.take c).now = m.now := rfl
theorem take_timers (m : Mock) (c : Nat) : (m.take c).timers = m.timers := rfl

theorem mem_take_box (m : Mock) (c : Nat) (e : Nat × Int) :
    e ∈ (m.take c).box ↔ e ∈ m.box ∧ e.1 ≠ c := by
  simp [Mock.take]

theorem peek_some (m : Mock) (c : Nat) (v : Int) (h : m.peek c = some v) : (c, v) ∈ m.box := by
  unfold Mock.peek at h
  cases hf : m.box.find? (fun e => e.1 == c) with
  | none => simp [hf] at h
  | some e =>
    simp [hf] at h
    have h1 := List.mem_of_find?_eq_some hf
    have h2 := List.find?_some hf
    simp at h2
    obtain ⟨a, b⟩ := e
    simp at h h2
    subst h; subst h2; exact h1

theorem peek_none (m : Mock) (c : Nat) (h : m.peek c = none) : ∀ v, (c, v) ∉ m.box := by
  intro v hv
  unfold Mock.peek at h
  simp at h
  exact h _ _ hv rfl

theorem peek_isSome_of_mem (m : Mock) (c : Nat) (v : Int) (h : (c, v) ∈ m.box) :
    (m.peek c).isSome = true := by
  cases hp : m.peek c with
  | some _ => rfl
  | none => exact absurd h (peek_none m c hp v)

/-! ## select -/

theorem pick_mem (alts : List Alt) (choice : Nat) (a : Alt) (h : pick alts choice = some a) :
    a ∈ alts := by
  unfold pick at h
  exact List.mem_of_getElem? h

theorem mem_altIf (b : Bool) (a x : Alt) : x ∈ altIf b a ↔ b = true ∧ x = a := by
  unfold altIf; cases b <;> simp

/-! ## definitions -/

theorem endB_of_not_cycle (d : Def) (h : d.isCycle = false) : d.endB = none := by
  cases d <;> simp_all [Def.isCycle, Def.endB]

theorem interval_of_not_cycle (d : Def) (h : d.isCycle = false) : d.interval = 0 := by
  cases d <;> simp_all [Def.isCycle, Def.interval]

/-! ## bookkeeping invariant -/

/-- what the phase and the counters say, without any reasoning about the clock -/
def Book (d : Def) (s : St) : Prop :=
  (∀ f ∈ s.fired, ∀ e, d.endB = some e → f.clock < e) ∧
  match s.ph with
  | .oneShot _ => d.isCycle = false ∧ s.fired = []
  | .waitStart _ _ => d.isCycle = true ∧ s.fired = []
  | .loop reps _ _ ce =>
    d.isCycle = true ∧ reps ≠ 0 ∧ (∀ x, ce = some x → d.endB ≠ none) ∧
    (0 ≤ d.reps → 0 ≤ reps ∧ (s.fired.length : Int) + reps ≤ d.reps ∧
      (d.endB = none → (s.fired.length : Int) + reps = d.reps))
  | .stopped b =>
    (d.isCycle = false → s.fired.length ≤ 1 ∧ (b = true → s.fired.length = 1)) ∧
    (d.isCycle = true → 0 ≤ d.reps → (s.fired.length : Int) ≤ d.reps ∧
      (b = true → s.cancelled = false → d.endB = none → (s.fired.length : Int) = d.reps))

theorem iterate_fired (d : Def) (s : St) (reps t : Int) : (iterate d s reps t).fired = s.fired := by
  unfold iterate; split
  · rfl
  · dsimp only; split <;> rfl

theorem iterate_cancelled (d : Def) (s : St) (reps t : Int) :
    (iterate d s reps t).cancelled = s.cancelled := by
  unfold iterate; split
  · rfl
  · dsimp only; split <;> rfl

theorem book_iterate (d : Def) (s : St) (reps t : Int) (hc : d.isCycle = true)
    (he : ∀ f ∈ s.fired, ∀ e, d.endB = some e → f.clock < e)
    (hr : 0 ≤ d.reps → 0 ≤ reps ∧ (s.fired.length : Int) + reps ≤ d.reps ∧
      (d.endB = none → (s.fired.length : Int) + reps = d.reps)) :
    Book d (iterate d s reps t) := by
  unfold iterate
  by_cases h0 : reps = 0
  · simp only [h0, if_true]
    refine ⟨he, ?_⟩
    simp only [hc]
    refine ⟨by simp, fun _ hn => ?_⟩
    obtain ⟨_, h2, h3⟩ := hr hn
    subst h0
    refine ⟨by omega, fun _ _ hend => ?_⟩
    have := h3 hend; omega
  · simp only [h0, if_false]
    cases hend : d.endB with
    | none =>
      refine ⟨he, ?_⟩
      simp only [hc, true_and]
      exact ⟨h0, by simp, hr⟩
    | some e =>
      refine ⟨he, ?_⟩
      simp only [hc, true_and]
      exact ⟨h0, by simp [hend], hr⟩

theorem book_init (d : Def) (now0 : Int) : Book d (init d now0) := by
  cases d <;> simp [init, Book, Def.isCycle]

theorem book_step (d : Def) (c : Nat) (s s' : St) (hb : Book d s) (hs : step d c s = some s') :
    Book d s' := by
  obtain ⟨he, hp⟩ := hb
  unfold step at hs
  cases hph : s.ph with
  | stopped b => simp [hph] at hs
  | oneShot ch =>
    simp only [hph] at hs hp
    obtain ⟨hc, hf⟩ := hp
    split at hs
    · simp at hs
    · split at hs
      · simp at hs
      · injection hs with hs; subst hs
        refine ⟨?_, ?_⟩
        · intro f _ e hend; rw [endB_of_not_cycle d hc] at hend; simp at hend
        · simp [hf, hc]
    · injection hs with hs; subst hs
      refine ⟨he, ?_⟩
      simp [hf, hc]
  | waitStart ch st =>
    simp only [hph] at hs hp
    obtain ⟨hc, hf⟩ := hp
    split at hs
    · simp at hs
    · injection hs with hs; subst hs
      apply book_iterate d _ _ _ hc
      · simpa using he
      · intro hn; simp [hf]; exact hn
    · injection hs with hs; subst hs
      refine ⟨he, ?_⟩
      simp [hf, hc]
  | loop reps t ch ce =>
    simp only [hph] at hs hp
    obtain ⟨hc, hr0, hce, hr⟩ := hp
    split at hs
    · simp at hs
    · split at hs
      · simp at hs
      · rename_i v hv
        injection hs with hs; subst hs
        apply book_iterate d _ _ _ hc
        · dsimp only
          split
          · rename_i hfire
            intro f hf e hend
            rcases List.mem_append.mp hf with hf | hf
            · exact he f hf e hend
            · simp at hf; subst hf
              simp [hend] at hfire
              simpa using hfire
          · exact he
        · intro hn
          obtain ⟨h1, h2, h3⟩ := hr hn
          dsimp only
          have hpos : 0 < reps := by omega
          simp only [hpos, if_true]
          refine ⟨by omega, ?_, ?_⟩
          · split <;> (try simp only [List.length_append, List.length_cons, List.length_nil]) <;> omega
          · intro hend
            have := h3 hend
            simp [hend]; omega
    · rename_i _ a hne hpick
      injection hs with hs; subst hs
      refine ⟨he, ?_⟩
      simp only [hc]
      refine ⟨by simp, fun _ hn => ?_⟩
      obtain ⟨h1, h2, h3⟩ := hr hn
      refine ⟨by omega, fun _ hcan hend => ?_⟩
      -- stopped by the end wake-up or by ctx.Done: neither is possible here
      have hmem := pick_mem _ _ _ hpick
      simp only [List.mem_append, mem_altIf] at hmem
      rcases hmem with (⟨hE, _⟩ | ⟨hD, _⟩) | ⟨_, hT⟩
      · cases hce' : ce with
        | none => simp [hce'] at hE
        | some x => exact absurd hend (hce x hce')
      · simp [hcan] at hD
      · exact absurd hT (by intro h; exact hne (by rw [h]))

theorem book_apply (d : Def) (s : St) (e : Ev) (hb : Book d s) : Book d (apply d s e) := by
  cases e with
  | advance x => exact hb
  | set t => exact hb
  | cancel =>
    obtain ⟨he, hp⟩ := hb
    refine ⟨he, ?_⟩
    cases hph : s.ph <;> simp only [apply, hph] at hp ⊢ <;> try exact hp
    refine ⟨hp.1, fun hc hn => ⟨(hp.2 hc hn).1, ?_⟩⟩
    intro _ h; simp at h
  | tick c =>
    simp only [apply]
    cases hs : step d c s with
    | none => simpa using hb
    | some s' => simpa using book_step d c s s' hb hs

theorem book_run (d : Def) (evs : List Ev) (s : St) (hb : Book d s) : Book d (run d s evs) := by
  induction evs generalizing s with
  | nil => exact hb
  | cons e es ih => exact ih _ (book_apply d s e hb)

end Bpmn.Lemmas.Timer
