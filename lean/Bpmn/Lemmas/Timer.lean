import Bpmn.Model.Timer
/-! Helper lemmas for C13: the mock clock's operations in terms of membership, and the two
inductive invariants of the timer machine (`Book`: bookkeeping of phases and counts, no clock
reasoning; `Timing`: what is known about the channels the goroutine waits on). -/
namespace Bpmn.Lemmas.Timer
open Bpmn.Model.Timer

/-! ## mock clock -/

theorem mem_insertDue (x y : Int × Nat) (l : List (Int × Nat)) :
    y ∈ insertDue x l ↔ y = x ∨ y ∈ l := by
  induction l with
  | nil => simp [insertDue]
  | cons z zs ih =>
    unfold insertDue
    split
    · simp
    · simp [ih]; constructor
      · rintro (h | h | h) <;> simp [h]
      · rintro (h | h | h) <;> simp [h]

theorem mem_sortDue (y : Int × Nat) (l : List (Int × Nat)) : y ∈ sortDue l ↔ y ∈ l := by
  induction l with
  | nil => simp [sortDue]
  | cons z zs ih => simp [sortDue, mem_insertDue, ih]

theorem until_next (m : Mock) (t : Int) : (m.until t).1.next = m.next + 1 := by
  unfold Mock.until; split <;> rfl

theorem until_id (m : Mock) (t : Int) : (m.until t).2 = m.next := by
  unfold Mock.until; split <;> rfl

theorem until_now (m : Mock) (t : Int) : (m.until t).1.now = m.now := by
  unfold Mock.until; split <;> rfl

theorem mem_until_box (m : Mock) (t : Int) (e : Nat × Int) :
    e ∈ (m.until t).1.box ↔ e ∈ m.box ∨ (t ≤ m.now ∧ e = (m.next, m.now)) := by
  unfold Mock.until; split <;> simp [*]

theorem mem_until_timers (m : Mock) (t : Int) (e : Int × Nat) :
    e ∈ (m.until t).1.timers ↔ e ∈ m.timers ∨ (¬ t ≤ m.now ∧ e = (t, m.next)) := by
  unfold Mock.until; split <;> simp [*]

theorem set_next (m : Mock) (t : Int) : (m.set t).next = m.next := rfl
theorem set_now (m : Mock) (t : Int) : (m.set t).now = t := rfl

theorem mem_set_timers (m : Mock) (t : Int) (e : Int × Nat) :
    e ∈ (m.set t).timers ↔ e ∈ m.timers ∧ ¬ e.1 ≤ t := by
  simp [Mock.set, mem_sortDue]

theorem mem_set_box (m : Mock) (t : Int) (e : Nat × Int) :
    e ∈ (m.set t).box ↔ e ∈ m.box ∨ (e.2 = t ∧ ∃ x, (x, e.1) ∈ m.timers ∧ x ≤ t) := by
  obtain ⟨c, v⟩ := e
  simp only [Mock.set, Mock.dueAt, List.mem_append, List.mem_map, List.mem_filter, mem_sortDue,
    decide_eq_true_eq, Prod.mk.injEq]
  constructor
  · rintro (h | ⟨⟨x, c'⟩, ⟨hm, hx⟩, hc, hv⟩)
    · exact Or.inl h
    · subst hc; exact Or.inr ⟨hv.symm, x, hm, hx⟩
  · rintro (h | ⟨hv, x, hm, hx⟩)
    · exact Or.inl h
    · exact Or.inr ⟨(x, c), ⟨hm, hx⟩, rfl, hv.symm⟩

theorem take_next (m : Mock) (c : Nat) : (m.take c).next = m.next := rfl
theorem take_now (m : Mock) (c : Nat) : (m.take c).now = m.now := rfl
theorem take_timers (m : Mock) (c : Nat) : (m.take c).timers = m.timers := rfl

theorem mem_take_box (m : Mock) (c : Nat) (e : Nat × Int) :
    e ∈ (m.take c).box ↔ e ∈ m.box ∧ e.1 ≠ c := by
  simp [Mock.take]

theorem peek_some (m : Mock) (c : Nat) (v : Int) (h : m.peek c = some v) : (c, v) ∈ m.box := by
  unfold Mock.peek at h
  cases hf : m.box.find? (fun e => e.1 == c) with
  | none => simp [hf] at h
  | some e =>
    simp [hf] at h
    have h1 := List.mem_of_find?_eq_some hf
    have h2 := List.find?_some hf
    simp at h2
    obtain ⟨a, b⟩ := e
    simp at h h2
    subst h; subst h2; exact h1

theorem peek_none (m : Mock) (c : Nat) (h : m.peek c = none) : ∀ v, (c, v) ∉ m.box := by
  intro v hv
  unfold Mock.peek at h
  simp at h
  exact h _ _ hv rfl

theorem peek_isSome_of_mem (m : Mock) (c : Nat) (v : Int) (h : (c, v) ∈ m.box) :
    (m.peek c).isSome = true := by
  cases hp : m.peek c with
  | some _ => rfl
  | none => exact absurd h (peek_none m c hp v)

/-! ## select -/

theorem pick_mem (alts : List Alt) (choice : Nat) (a : Alt) (h : pick alts choice = some a) :
    a ∈ alts := by
  unfold pick at h
  exact List.mem_of_getElem? h

theorem mem_altIf (b : Bool) (a x : Alt) : x ∈ altIf b a ↔ b = true ∧ x = a := by
  unfold altIf; cases b <;> simp

/-! ## definitions -/

theorem endB_of_not_cycle (d : Def) (h : d.isCycle = false) : d.endB = none := by
  cases d <;> simp_all [Def.isCycle, Def.endB]

theorem interval_of_not_cycle (d : Def) (h : d.isCycle = false) : d.interval = 0 := by
  cases d <;> simp_all [Def.isCycle, Def.interval]

/-! ## bookkeeping invariant -/

/-- what the phase and the counters say, without any reasoning about the clock -/
def Book (d : Def) (s : St) : Prop :=
  (∀ f ∈ s.fired, ∀ e, d.endB = some e → f.clock < e) ∧
  match s.ph with
  | .oneShot _ => d.isCycle = false ∧ s.fired = []
  | .waitStart _ _ => d.isCycle = true ∧ s.fired = []
  | .loop reps _ _ ce =>
    d.isCycle = true ∧ reps ≠ 0 ∧ (∀ x, ce = some x → d.endB ≠ none) ∧
    (0 ≤ d.reps → 0 ≤ reps ∧ (s.fired.length : Int) + reps ≤ d.reps ∧
      (d.endB = none → (s.fired.length : Int) + reps = d.reps))
  | .stopped b =>
    (d.isCycle = false → s.fired.length ≤ 1 ∧ (b = true → s.fired.length = 1)) ∧
    (d.isCycle = true → 0 ≤ d.reps → (s.fired.length : Int) ≤ d.reps ∧
      (b = true → s.cancelled = false → d.endB = none → (s.fired.length : Int) = d.reps))

theorem iterate_fired (d : Def) (s : St) (reps t : Int) : (iterate d s reps t).fired = s.fired := by
  unfold iterate; split
  · rfl
  · dsimp only; split <;> rfl

theorem iterate_cancelled (d : Def) (s : St) (reps t : Int) :
    (iterate d s reps t).cancelled = s.cancelled := by
  unfold iterate; split
  · rfl
  · dsimp only; split <;> rfl

theorem book_iterate (d : Def) (s : St) (reps t : Int) (hc : d.isCycle = true)
    (he : ∀ f ∈ s.fired, ∀ e, d.endB = some e → f.clock < e)
    (hr : 0 ≤ d.reps → 0 ≤ reps ∧ (s.fired.length : Int) + reps ≤ d.reps ∧
      (d.endB = none → (s.fired.length : Int) + reps = d.reps)) :
    Book d (iterate d s reps t) := by
  unfold iterate
  by_cases h0 : reps = 0
  · simp only [h0, if_true]
    refine ⟨he, ?_⟩
    simp only [hc]
    refine ⟨by simp, fun _ hn => ?_⟩
    obtain ⟨_, h2, h3⟩ := hr hn
    subst h0
    refine ⟨by omega, fun _ _ hend => ?_⟩
    have := h3 hend; omega
  · simp only [h0, if_false]
    cases hend : d.endB with
    | none =>
      refine ⟨he, ?_⟩
      simp only [hc, true_and]
      exact ⟨h0, by simp, hr⟩
    | some e =>
      refine ⟨he, ?_⟩
      simp only [hc, true_and]
      exact ⟨h0, by simp [hend], hr⟩

theorem book_init (d : Def) (now0 : Int) : Book d (init d now0) := by
  cases d <;> simp [init, Book, Def.isCycle]

theorem book_step (d : Def) (c : Nat) (s s' : St) (hb : Book d s) (hs : step d c s = some s') :
    Book d s' := by
  obtain ⟨he, hp⟩ := hb
  unfold step at hs
  cases hph : s.ph with
  | stopped b => simp [hph] at hs
  | oneShot ch =>
    simp only [hph] at hs hp
    obtain ⟨hc, hf⟩ := hp
    split at hs
    · simp at hs
    · split at hs
      · simp at hs
      · injection hs with hs; subst hs
        refine ⟨?_, ?_⟩
        · intro f _ e hend; rw [endB_of_not_cycle d hc] at hend; simp at hend
        · simp [hf, hc]
    · injection hs with hs; subst hs
      refine ⟨he, ?_⟩
      simp [hf, hc]
  | waitStart ch st =>
    simp only [hph] at hs hp
    obtain ⟨hc, hf⟩ := hp
    split at hs
    · simp at hs
    · injection hs with hs; subst hs
      apply book_iterate d _ _ _ hc
      · simpa using he
      · intro hn; simp [hf]; exact hn
    · injection hs with hs; subst hs
      refine ⟨he, ?_⟩
      simp [hf, hc]
  | loop reps t ch ce =>
    simp only [hph] at hs hp
    obtain ⟨hc, hr0, hce, hr⟩ := hp
    split at hs
    · simp at hs
    · split at hs
      · simp at hs
      · rename_i v hv
        injection hs with hs; subst hs
        apply book_iterate d _ _ _ hc
        · dsimp only
          split
          · rename_i hfire
            intro f hf e hend
            rcases List.mem_append.mp hf with hf | hf
            · exact he f hf e hend
            · simp at hf; subst hf
              simp [hend] at hfire
              simpa using hfire
          · exact he
        · intro hn
          obtain ⟨h1, h2, h3⟩ := hr hn
          dsimp only
          have hpos : 0 < reps := by omega
          simp only [hpos, if_true]
          refine ⟨by omega, ?_, ?_⟩
          · split <;> (try simp only [List.length_append, List.length_cons, List.length_nil]) <;> omega
          · intro hend
            have := h3 hend
            simp [hend]; omega
    · rename_i _ a hne hpick
      injection hs with hs; subst hs
      refine ⟨he, ?_⟩
      simp only [hc]
      refine ⟨by simp, fun _ hn => ?_⟩
      obtain ⟨h1, h2, h3⟩ := hr hn
      refine ⟨by omega, fun _ hcan hend => ?_⟩
      -- stopped by the end wake-up or by ctx.Done: neither is possible here
      have hmem := pick_mem _ _ _ hpick
      simp only [List.mem_append, mem_altIf] at hmem
      rcases hmem with (⟨hE, _⟩ | ⟨hD, _⟩) | ⟨_, hT⟩
      · cases hce' : ce with
        | none => simp [hce'] at hE
        | some x => exact absurd hend (hce x hce')
      · simp [hcan] at hD
      · exact absurd hT (by intro h; exact hne (by rw [h]))

theorem book_apply (d : Def) (s : St) (e : Ev) (hb : Book d s) : Book d (apply d s e) := by
  cases e with
  | advance x => exact hb
  | set t => exact hb
  | cancel =>
    obtain ⟨he, hp⟩ := hb
    refine ⟨he, ?_⟩
    cases hph : s.ph <;> simp only [apply, hph] at hp ⊢ <;> try exact hp
    refine ⟨hp.1, fun hc hn => ⟨(hp.2 hc hn).1, ?_⟩⟩
    intro _ h; simp at h
  | tick c =>
    simp only [apply]
    cases hs : step d c s with
    | none => simpa using hb
    | some s' => simpa using book_step d c s s' hb hs

theorem book_run (d : Def) (evs : List Ev) (s : St) (hb : Book d s) : Book d (run d s evs) := by
  induction evs generalizing s with
  | nil => exact hb
  | cons e es ih => exact ih _ (book_apply d s e hb)

/-! ## timing invariant -/

/-- channel ids in the mock are below the next fresh id -/
def IdsOK (m : Mock) : Prop :=
  (∀ e ∈ m.timers, e.2 < m.next) ∧ (∀ e ∈ m.box, e.1 < m.next)

/-- channel `c` was asked to wake at `due`: whatever is pending for it is due no earlier, whatever
has been delivered into it carries a clock reading no earlier -/
def ChanOK (m : Mock) (c : Nat) (due : Int) : Prop :=
  c < m.next ∧ (∀ v, (c, v) ∈ m.box → due ≤ v) ∧ (∀ x, (x, c) ∈ m.timers → due ≤ x)

theorem idsOK_until (m : Mock) (t : Int) (h : IdsOK m) : IdsOK (m.until t).1 := by
  obtain ⟨h1, h2⟩ := h
  refine ⟨fun e he => ?_, fun e he => ?_⟩
  · rw [until_next]
    rcases (mem_until_timers m t e).mp he with he | ⟨_, he⟩
    · have := h1 e he; omega
    · subst he; simp
  · rw [until_next]
    rcases (mem_until_box m t e).mp he with he | ⟨_, he⟩
    · have := h2 e he; omega
    · subst he; simp

theorem idsOK_set (m : Mock) (t : Int) (h : IdsOK m) : IdsOK (m.set t) := by
  obtain ⟨h1, h2⟩ := h
  refine ⟨fun e he => ?_, fun e he => ?_⟩
  · rw [set_next]; exact h1 e ((mem_set_timers m t e).mp he).1
  · rw [set_next]
    rcases (mem_set_box m t e).mp he with he | ⟨_, x, hx, _⟩
    · exact h2 e he
    · exact h1 _ hx

theorem idsOK_take (m : Mock) (c : Nat) (h : IdsOK m) : IdsOK (m.take c) := by
  obtain ⟨h1, h2⟩ := h
  exact ⟨h1, fun e he => h2 e ((mem_take_box m c e).mp he).1⟩

theorem chanOK_until_old (m : Mock) (t : Int) (c : Nat) (due : Int) (h : ChanOK m c due) :
    ChanOK (m.until t).1 c due := by
  obtain ⟨h0, h1, h2⟩ := h
  refine ⟨by rw [until_next]; omega, fun v hv => ?_, fun x hx => ?_⟩
  · rcases (mem_until_box m t _).mp hv with hv | ⟨_, hv⟩
    · exact h1 v hv
    · simp at hv; omega
  · rcases (mem_until_timers m t _).mp hx with hx | ⟨_, hx⟩
    · exact h2 x hx
    · simp at hx; omega

theorem chanOK_until_new (m : Mock) (t : Int) (h : IdsOK m) :
    ChanOK (m.until t).1 (m.until t).2 t := by
  obtain ⟨h1, h2⟩ := h
  rw [until_id]
  refine ⟨by rw [until_next]; omega, fun v hv => ?_, fun x hx => ?_⟩
  · rcases (mem_until_box m t _).mp hv with hv | ⟨ht, hv⟩
    · have := h2 _ hv; simp at this
    · simp at hv; omega
  · rcases (mem_until_timers m t _).mp hx with hx | ⟨_, hx⟩
    · have := h1 _ hx; simp at this
    · simp at hx; omega

theorem chanOK_set (m : Mock) (t : Int) (c : Nat) (due : Int) (h : ChanOK m c due) :
    ChanOK (m.set t) c due := by
  obtain ⟨h0, h1, h2⟩ := h
  refine ⟨h0, fun v hv => ?_, fun x hx => ?_⟩
  · rcases (mem_set_box m t _).mp hv with hv | ⟨hv, x, hx, hxt⟩
    · exact h1 v hv
    · have := h2 x hx; simp at hv; omega
  · exact h2 x ((mem_set_timers m t _).mp hx).1

theorem chanOK_take (m : Mock) (c' c : Nat) (due : Int) (h : ChanOK m c due) :
    ChanOK (m.take c') c due := by
  obtain ⟨h0, h1, h2⟩ := h
  exact ⟨h0, fun v hv => h1 v ((mem_take_box m c' _).mp hv).1, h2⟩

/-- consecutive (indeed all earlier/later) firings are at least `i` apart in wake-up time -/
def Spaced (i : Int) (l : List Firing) : Prop := l.Pairwise (fun a b => a.wake + i ≤ b.wake)

/-- the k-th firing (from 0) is not before `z + (k+1)·i` -/
def DueOK (z i : Int) (l : List Firing) : Prop :=
  ∀ (k : Nat) (f : Firing), l[k]? = some f → z + i * ((k : Int) + 1) ≤ f.wake

def Timing (d : Def) (z : Int) (s : St) : Prop :=
  IdsOK s.m ∧ Spaced d.interval s.fired ∧ DueOK z d.interval s.fired ∧
  match s.ph with
  | .oneShot c => ChanOK s.m c z
  | .waitStart c st => st = z ∧ ChanOK s.m c z
  | .loop _ t c _ =>
    ChanOK s.m c (t + d.interval) ∧ z + d.interval * (s.fired.length : Int) ≤ t ∧
    (∀ f ∈ s.fired, f.wake ≤ t)
  | .stopped _ => True

theorem dueOK_concat (z i : Int) (l : List Firing) (f : Firing) (h : DueOK z i l)
    (hf : z + i * ((l.length : Int) + 1) ≤ f.wake) : DueOK z i (l ++ [f]) := by
  intro k g hk
  rw [List.getElem?_append] at hk
  split at hk
  · exact h k g hk
  · rename_i hlt
    have : k - l.length = 0 := by
      cases hkl : k - l.length with
      | zero => rfl
      | succ n => simp [hkl] at hk
    have hk' : k = l.length := by omega
    simp [this] at hk
    subst hk; subst hk'; exact hf

theorem spaced_concat (i : Int) (l : List Firing) (f : Firing) (h : Spaced i l)
    (hf : ∀ a ∈ l, a.wake + i ≤ f.wake) : Spaced i (l ++ [f]) := by
  unfold Spaced at *
  rw [List.pairwise_append]
  refine ⟨h, by simp, ?_⟩
  intro a ha b hb
  simp at hb; subst hb; exact hf a ha

theorem timing_iterate (d : Def) (z : Int) (s : St) (reps t : Int)
    (hids : IdsOK s.m) (hsp : Spaced d.interval s.fired) (hdue : DueOK z d.interval s.fired)
    (ht : z + d.interval * (s.fired.length : Int) ≤ t) (hw : ∀ f ∈ s.fired, f.wake ≤ t) :
    Timing d z (iterate d s reps t) := by
  unfold iterate
  split
  · exact ⟨hids, hsp, hdue, trivial⟩
  · dsimp only
    have hnew := chanOK_until_new s.m (t + d.interval) hids
    have hids1 := idsOK_until s.m (t + d.interval) hids
    split
    · exact ⟨hids1, hsp, hdue, hnew, ht, hw⟩
    · rename_i e _
      exact ⟨idsOK_until _ e hids1, hsp, hdue, chanOK_until_old _ e _ _ hnew, ht, hw⟩

theorem timing_init (d : Def) (now0 : Int) : Timing d (d.origin now0) (init d now0) := by
  have hids : IdsOK (Mock.at now0) := by simp [IdsOK, Mock.at]
  have hnew := chanOK_until_new (Mock.at now0) (d.origin now0) hids
  have hids1 := idsOK_until (Mock.at now0) (d.origin now0) hids
  cases d <;> exact ⟨hids1, by simp [init, Spaced], by simp [init, DueOK], by simpa [init] using hnew⟩

theorem timing_step (d : Def) (z : Int) (c : Nat) (s s' : St) (hI : 0 ≤ d.interval)
    (hb : Book d s) (ht : Timing d z s) (hs : step d c s = some s') : Timing d z s' := by
  obtain ⟨hids, hsp, hdue, hp⟩ := ht
  obtain ⟨_, hbp⟩ := hb
  unfold step at hs
  cases hph : s.ph with
  | stopped b => simp [hph] at hs
  | oneShot ch =>
    simp only [hph] at hs hp hbp
    obtain ⟨hc, hf⟩ := hbp
    split at hs
    · simp at hs
    · split at hs
      · simp at hs
      · rename_i v hv
        injection hs with hs; subst hs
        have hv' := hp.2.1 v (peek_some _ _ _ hv)
        refine ⟨idsOK_take _ _ hids, ?_, ?_, trivial⟩
        · simp [hf, Spaced]
        · simp only [hf, List.nil_append]
          intro k g hk
          cases k with
          | zero => simp at hk; subst hk; simp [interval_of_not_cycle d hc]; exact hv'
          | succ n => simp at hk
    · injection hs with hs; subst hs
      exact ⟨hids, hsp, hdue, trivial⟩
  | waitStart ch st =>
    simp only [hph] at hs hp hbp
    obtain ⟨hc, hf⟩ := hbp
    obtain ⟨hst, _⟩ := hp
    split at hs
    · simp at hs
    · injection hs with hs; subst hs
      apply timing_iterate
      · exact idsOK_take _ _ hids
      · exact hsp
      · exact hdue
      · simp [hf, hst]
      · simp [hf]
    · injection hs with hs; subst hs
      exact ⟨hids, hsp, hdue, trivial⟩
  | loop reps t ch ce =>
    simp only [hph] at hs hp hbp
    obtain ⟨hch, hlen, hw⟩ := hp
    split at hs
    · simp at hs
    · split at hs
      · simp at hs
      · rename_i v hv
        injection hs with hs; subst hs
        have hv' : t + d.interval ≤ v := hch.2.1 v (peek_some _ _ _ hv)
        have hmul : d.interval * ((s.fired.length : Int) + 1) =
            d.interval * (s.fired.length : Int) + d.interval := by
          rw [Int.mul_add, Int.mul_one]
        apply timing_iterate
        · exact idsOK_take _ _ hids
        · dsimp only
          split
          · exact spaced_concat _ _ _ hsp (fun a ha => by have := hw a ha; simp; omega)
          · exact hsp
        · dsimp only
          split
          · exact dueOK_concat _ _ _ _ hdue (by simp only; omega)
          · exact hdue
        · dsimp only
          split
          · simp only [List.length_append, List.length_cons, List.length_nil]
            push_cast
            omega
          · omega
        · dsimp only
          split
          · intro f hf
            rcases List.mem_append.mp hf with hf | hf
            · have := hw f hf; omega
            · simp at hf; subst hf; simp
          · intro f hf; have := hw f hf; omega
    · injection hs with hs; subst hs
      exact ⟨hids, hsp, hdue, trivial⟩

theorem timing_apply (d : Def) (z : Int) (s : St) (e : Ev) (hI : 0 ≤ d.interval)
    (hb : Book d s) (ht : Timing d z s) : Timing d z (apply d s e) := by
  cases e with
  | cancel => exact ht
  | tick c =>
    simp only [apply]
    cases hs : step d c s with
    | none => simpa using ht
    | some s' => simpa using timing_step d z c s s' hI hb ht hs
  | advance x =>
    obtain ⟨hids, hsp, hdue, hp⟩ := ht
    refine ⟨idsOK_set _ _ hids, hsp, hdue, ?_⟩
    cases hph : s.ph <;> simp only [apply, hph] at hp ⊢
    · exact chanOK_set _ _ _ _ hp
    · exact ⟨hp.1, chanOK_set _ _ _ _ hp.2⟩
    · exact ⟨chanOK_set _ _ _ _ hp.1, hp.2⟩
  | set t =>
    obtain ⟨hids, hsp, hdue, hp⟩ := ht
    refine ⟨idsOK_set _ _ hids, hsp, hdue, ?_⟩
    cases hph : s.ph <;> simp only [apply, hph] at hp ⊢
    · exact chanOK_set _ _ _ _ hp
    · exact ⟨hp.1, chanOK_set _ _ _ _ hp.2⟩
    · exact ⟨chanOK_set _ _ _ _ hp.1, hp.2⟩

theorem inv_run (d : Def) (z : Int) (evs : List Ev) (s : St) (hI : 0 ≤ d.interval)
    (hb : Book d s) (ht : Timing d z s) : Book d (run d s evs) ∧ Timing d z (run d s evs) := by
  induction evs generalizing s with
  | nil => exact ⟨hb, ht⟩
  | cons e es ih => exact ih _ (book_apply d s e hb) (timing_apply d z s e hI hb ht)

/-! ## monotone clocks: a wake-up never carries a reading from the future -/

/-- the clock operations of a history never move the clock backwards (from reading `now`) -/
def MonoEvs : Int → List Ev → Prop
  | _, [] => True
  | now, .advance x :: es => 0 ≤ x ∧ MonoEvs (now + x) es
  | now, .set t :: es => now ≤ t ∧ MonoEvs t es
  | now, .cancel :: es => MonoEvs now es
  | now, .tick _ :: es => MonoEvs now es

def Mono (s : St) : Prop :=
  (∀ e ∈ s.m.box, e.2 ≤ s.m.now) ∧ (∀ f ∈ s.fired, f.wake ≤ f.clock)

theorem iterate_now (d : Def) (s : St) (reps t : Int) : (iterate d s reps t).m.now = s.m.now := by
  unfold iterate; split
  · rfl
  · dsimp only; split
    · simp [until_now]
    · simp [until_now]

theorem boxle_until (m : Mock) (t : Int) (h : ∀ e ∈ m.box, e.2 ≤ m.now) :
    ∀ e ∈ (m.until t).1.box, e.2 ≤ (m.until t).1.now := by
  intro e he
  rw [until_now]
  rcases (mem_until_box m t e).mp he with he | ⟨_, he⟩
  · exact h e he
  · subst he; simp

theorem mono_iterate (d : Def) (s : St) (reps t : Int) (h : Mono s) : Mono (iterate d s reps t) := by
  obtain ⟨h1, h2⟩ := h
  unfold iterate; split
  · exact ⟨h1, h2⟩
  · dsimp only; split
    · exact ⟨boxle_until _ _ h1, h2⟩
    · exact ⟨boxle_until _ _ (boxle_until _ _ h1), h2⟩

theorem step_now (d : Def) (c : Nat) (s s' : St) (hs : step d c s = some s') : s'.m.now = s.m.now := by
  unfold step at hs
  cases hph : s.ph with
  | stopped b => simp [hph] at hs
  | oneShot ch =>
    simp only [hph] at hs
    split at hs
    · simp at hs
    · split at hs
      · simp at hs
      · injection hs with hs; subst hs; rfl
    · injection hs with hs; subst hs; rfl
  | waitStart ch st =>
    simp only [hph] at hs
    split at hs
    · simp at hs
    · injection hs with hs; subst hs; rw [iterate_now]; rfl
    · injection hs with hs; subst hs; rfl
  | loop reps t ch ce =>
    simp only [hph] at hs
    split at hs
    · simp at hs
    · split at hs
      · simp at hs
      · injection hs with hs; subst hs; rw [iterate_now]; rfl
    · injection hs with hs; subst hs; rfl

theorem mono_step (d : Def) (c : Nat) (s s' : St) (h : Mono s) (hs : step d c s = some s') :
    Mono s' := by
  obtain ⟨h1, h2⟩ := h
  have htake : ∀ ch, ∀ e ∈ (s.m.take ch).box, e.2 ≤ (s.m.take ch).now :=
    fun ch e he => h1 e ((mem_take_box _ _ _).mp he).1
  unfold step at hs
  cases hph : s.ph with
  | stopped b => simp [hph] at hs
  | oneShot ch =>
    simp only [hph] at hs
    split at hs
    · simp at hs
    · split at hs
      · simp at hs
      · rename_i v hv
        injection hs with hs; subst hs
        refine ⟨htake ch, fun f hf => ?_⟩
        rcases List.mem_append.mp hf with hf | hf
        · exact h2 f hf
        · simp at hf; subst hf; exact h1 _ (peek_some _ _ _ hv)
    · injection hs with hs; subst hs; exact ⟨h1, h2⟩
  | waitStart ch st =>
    simp only [hph] at hs
    split at hs
    · simp at hs
    · injection hs with hs; subst hs
      exact mono_iterate _ _ _ _ ⟨htake ch, h2⟩
    · injection hs with hs; subst hs; exact ⟨h1, h2⟩
  | loop reps t ch ce =>
    simp only [hph] at hs
    split at hs
    · simp at hs
    · split at hs
      · simp at hs
      · rename_i v hv
        injection hs with hs; subst hs
        apply mono_iterate
        refine ⟨htake ch, ?_⟩
        dsimp only
        split
        · intro f hf
          rcases List.mem_append.mp hf with hf | hf
          · exact h2 f hf
          · simp at hf; subst hf; exact h1 _ (peek_some _ _ _ hv)
        · exact h2
    · injection hs with hs; subst hs; exact ⟨h1, h2⟩

theorem mono_set (s : St) (t : Int) (h : Mono s) (ht : s.m.now ≤ t) :
    Mono { s with m := s.m.set t } := by
  obtain ⟨h1, h2⟩ := h
  refine ⟨fun e he => ?_, h2⟩
  show e.2 ≤ t
  rcases (mem_set_box _ _ _).mp he with he | ⟨he, _⟩
  · have := h1 e he; omega
  · omega

theorem mono_run (d : Def) (evs : List Ev) (s : St) (h : Mono s) (hm : MonoEvs s.m.now evs) :
    Mono (run d s evs) := by
  induction evs generalizing s with
  | nil => exact h
  | cons e es ih =>
    simp only [run, List.foldl_cons]
    cases e with
    | advance x =>
      obtain ⟨hx, hm⟩ := hm
      exact ih _ (mono_set s _ h (by omega)) hm
    | set t =>
      obtain ⟨hx, hm⟩ := hm
      exact ih _ (mono_set s _ h hx) hm
    | cancel => exact ih _ h hm
    | tick c =>
      simp only [apply]
      cases hs : step d c s with
      | none => exact ih _ h hm
      | some s' =>
        have hn := step_now d c s s' hs
        have hm' : MonoEvs s.m.now es := hm
        exact ih _ (mono_step d c s s' h hs) (by show MonoEvs s'.m.now es; rw [hn]; exact hm')

theorem mono_init (d : Def) (now0 : Int) : Mono (init d now0) := by
  have h0 : ∀ e ∈ (Mock.at now0).box, e.2 ≤ (Mock.at now0).now := by simp [Mock.at]
  have := boxle_until (Mock.at now0) (d.origin now0) h0
  cases d <;> exact ⟨this, by simp [init]⟩

theorem init_now (d : Def) (now0 : Int) : (init d now0).m.now = now0 := by
  cases d <;> simp [init, until_now, Mock.at]

/-! ## liveness side: the channel the goroutine waits on is really armed -/

/-- channel `c` holds a value, or a wake-up for exactly `due` is pending for it -/
def Armed (m : Mock) (c : Nat) (due : Int) : Prop := (∃ v, (c, v) ∈ m.box) ∨ (due, c) ∈ m.timers

def Live (d : Def) (z : Int) (s : St) : Prop :=
  match s.ph with
  | .oneShot c => Armed s.m c z
  | .waitStart c st => st = z ∧ Armed s.m c z
  | .loop _ t c ce => Armed s.m c (t + d.interval) ∧ (d.endB = none → ce = none)
  | .stopped _ => True

theorem armed_until_new (m : Mock) (t : Int) : Armed (m.until t).1 (m.until t).2 t := by
  rw [until_id]
  by_cases h : t ≤ m.now
  · exact Or.inl ⟨m.now, (mem_until_box m t _).mpr (Or.inr ⟨h, rfl⟩)⟩
  · exact Or.inr ((mem_until_timers m t _).mpr (Or.inr ⟨h, rfl⟩))

theorem armed_until_old (m : Mock) (t : Int) (c : Nat) (due : Int) (h : Armed m c due) :
    Armed (m.until t).1 c due := by
  rcases h with ⟨v, hv⟩ | h
  · exact Or.inl ⟨v, (mem_until_box m t _).mpr (Or.inl hv)⟩
  · exact Or.inr ((mem_until_timers m t _).mpr (Or.inl h))

theorem armed_set (m : Mock) (t : Int) (c : Nat) (due : Int) (h : Armed m c due) :
    Armed (m.set t) c due := by
  rcases h with ⟨v, hv⟩ | h
  · exact Or.inl ⟨v, (mem_set_box m t _).mpr (Or.inl hv)⟩
  · by_cases hd : due ≤ t
    · exact Or.inl ⟨t, (mem_set_box m t _).mpr (Or.inr ⟨rfl, due, h, hd⟩)⟩
    · exact Or.inr ((mem_set_timers m t _).mpr ⟨h, hd⟩)

/-- once the clock is set to `T ≥ due` an armed channel holds a value -/
theorem armed_set_ready (m : Mock) (T : Int) (c : Nat) (due : Int) (h : Armed m c due)
    (hT : due ≤ T) : ((m.set T).peek c).isSome = true := by
  rcases h with ⟨v, hv⟩ | h
  · exact peek_isSome_of_mem _ _ v ((mem_set_box m T _).mpr (Or.inl hv))
  · exact peek_isSome_of_mem _ _ T ((mem_set_box m T _).mpr (Or.inr ⟨rfl, due, h, hT⟩))

theorem live_iterate (d : Def) (z : Int) (s : St) (reps t : Int) : Live d z (iterate d s reps t) := by
  unfold iterate
  split
  · trivial
  · dsimp only
    split
    · exact ⟨armed_until_new _ _, fun _ => rfl⟩
    · rename_i e he
      exact ⟨armed_until_old _ _ _ _ (armed_until_new _ _), fun h => by simp [he] at h⟩

theorem live_init (d : Def) (now0 : Int) : Live d (d.origin now0) (init d now0) := by
  have := armed_until_new (Mock.at now0) (d.origin now0)
  cases d <;> simpa [init, Live] using this

theorem live_step (d : Def) (z : Int) (c : Nat) (s s' : St) (hs : step d c s = some s') :
    Live d z s' := by
  unfold step at hs
  cases hph : s.ph with
  | stopped b => simp [hph] at hs
  | oneShot ch =>
    simp only [hph] at hs
    split at hs
    · simp at hs
    · split at hs
      · simp at hs
      · injection hs with hs; subst hs; trivial
    · injection hs with hs; subst hs; trivial
  | waitStart ch st =>
    simp only [hph] at hs
    split at hs
    · simp at hs
    · injection hs with hs; subst hs; exact live_iterate _ _ _ _ _
    · injection hs with hs; subst hs; trivial
  | loop reps t ch ce =>
    simp only [hph] at hs
    split at hs
    · simp at hs
    · split at hs
      · simp at hs
      · injection hs with hs; subst hs; exact live_iterate _ _ _ _ _
    · injection hs with hs; subst hs; trivial

theorem live_apply (d : Def) (z : Int) (s : St) (e : Ev) (h : Live d z s) :
    Live d z (apply d s e) := by
  cases e with
  | cancel => exact h
  | tick c =>
    simp only [apply]
    cases hs : step d c s with
    | none => simpa using h
    | some s' => simpa using live_step d z c s s' hs
  | advance x =>
    cases hph : s.ph <;> simp only [Live, apply, hph] at h ⊢
    · exact armed_set _ _ _ _ h
    · exact ⟨h.1, armed_set _ _ _ _ h.2⟩
    · exact ⟨armed_set _ _ _ _ h.1, h.2⟩
  | set t =>
    cases hph : s.ph <;> simp only [Live, apply, hph] at h ⊢
    · exact armed_set _ _ _ _ h
    · exact ⟨h.1, armed_set _ _ _ _ h.2⟩
    · exact ⟨armed_set _ _ _ _ h.1, h.2⟩

theorem live_run (d : Def) (z : Int) (evs : List Ev) (s : St) (h : Live d z s) :
    Live d z (run d s evs) := by
  induction evs generalizing s with
  | nil => exact h
  | cons e es ih => exact ih _ (live_apply d z s e h)

theorem pick_single (a : Alt) (k : Nat) : pick [a] k = some a := by
  simp [pick, Nat.mod_one]

theorem pick_zero_none (alts : List Alt) (h : pick alts 0 = none) : alts = [] := by
  cases alts with
  | nil => rfl
  | cons a as => simp [pick] at h

theorem run_append (d : Def) (s : St) (e1 e2 : List Ev) :
    run d s (e1 ++ e2) = run d (run d s e1) e2 := by
  simp [run, List.foldl_append]

end Bpmn.Lemmas.Timer
