import Bpmn.Props.C18
import Bpmn.Props.C18Current
open Bpmn.Props.C18
#print axioms set_complete_sound
#print axioms set_complete_sound_exec
#print axioms set_complete_live
#print axioms set_wait_reentrant
#print axioms cease_set_once
#print axioms message_flow_once
#print axioms message_flow_live
#print axioms member_behaves_alone
#print axioms C18_partial
#print axioms C18_not_holds
#print axioms C18_counterexample_fast_process_missed
#print axioms C18_counterexample_fast_instance_missed
#print axioms C18_counterexample_double_close
#print axioms C18_counterexample_double_close_concurrent
#print axioms C18_counterexample_complete_before_instantiated
#print axioms C18_counterexample_message_lost_at_completion
#print axioms current_live
#print axioms current_reentrant
#print axioms current_verdict
#print axioms current_full_statement_refuted
#print axioms current_channels
#print axioms current_add_before_spawn
