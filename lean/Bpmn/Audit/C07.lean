import Bpmn.Props.C07
import Bpmn.Props.C07Current
open Bpmn.Props.C07
#print axioms C07_holds
#print axioms C07_general
#print axioms cancel_drains
#print axioms cancel_drains_any_schedule
#print axioms tracer_spin_bounded
#print axioms poll_ends_iff
#print axioms no_request_after_cancel
#print axioms validEvs_after_cancel
#print axioms validEvs_after_observe
#print axioms request_live_ctx_without_carry
#print axioms unregistered_sender_leaks
#print axioms parked_operation_leaks
#print axioms parked_registered_spins
#print axioms registered_never_done
#print axioms bad_kind_fails
#print axioms table_dichotomy
#print axioms current_verdict
#print axioms current_rows
#print axioms current_D20
#print axioms current_D20_present
#print axioms current_D22
#print axioms current_subprocess_tracer
#print axioms current_done_implies_registered
#print axioms current_no_regression
#print axioms current_hot_polls
#print axioms current_requests
