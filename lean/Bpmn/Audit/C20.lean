import Bpmn.Props.C20
import Bpmn.Props.C20Current
open Bpmn.Props.C20
#print axioms C20_partial
#print axioms C20_general
#print axioms C20_cex_unserialised
#print axioms C20_cex_nonatomic_counter
#print axioms C20_not_holds
#print axioms C20_counterexample_stale_time
#print axioms C20_counterexample_reset_window
#print axioms fallback_unique
#print axioms fallback_unique_across
#print axioms fallback_same_prefix_collides
#print axioms fallback_counterexample_nonatomic
#print axioms fallback_unique_program
#print axioms fallback_counterexample_same_clock
#print axioms C20_cex_clock_only_prefix
#print axioms C20_decided
#print axioms fallback_prefix_dichotomy
#print axioms sno_lex_increasing
#print axioms sno_unique_serialised
#print axioms sno_unique_single_goroutine
#print axioms sno_ids_carry_partition
#print axioms sno_unique_across_generators
#print axioms sno_partition_any_schedule
#print axioms sno_distinct_generators_disjoint
#print axioms genPartition_injective
#print axioms sno_dichotomy
#print axioms fallback_dichotomy
#print axioms current_sno
#print axioms current_fallback
#print axioms current_fallback_prefix
#print axioms current_statement
#print axioms current_restore_applies_snapshot
#print axioms current_fallback_prefix_from_clock
