import Bpmn.Props.C15
import Bpmn.Props.C15Current
open Bpmn.Props.C15
#print axioms dispatch_unambiguous
#print axioms attrs_roundtrip
#print axioms marshal_pure
#print axioms undeclared_type_attr_is_informal
#print axioms declared_type_attr_is_formal
#print axioms C15_counterexample_xsi
#print axioms mini_roundtrip_declared
#print axioms mini_roundtrip_informal_partial
#print axioms mini_marshal_pure
#print axioms current_wf
#print axioms current_prefixes_declared
#print axioms current_findBy_covers
#print axioms current_type_attr_agrees
#print axioms current_xsi_dichotomy
#print axioms current_informal_roundtrip
#print axioms C15_counterexample_value_field
#print axioms mini2_roundtrip_by_value
#print axioms current_value_fields_dichotomy
#print axioms roundtrip_general
#print axioms roundtrip_keeps_shape
#print axioms roundtrip_identity
#print axioms C15_holds
#print axioms mini_table_check
#print axioms mini2_table_check
#print axioms current_rt_table
#print axioms current_roundtrip
#print axioms current_C15
