import Bpmn.Props.C12
import Bpmn.Props.EngineCurrent
import Bpmn.Props.C12Current
open Bpmn.Props.C12 Bpmn.Props.EngineCurrent
#print axioms C12_partial
#print axioms settle_holds_parent
#print axioms sub_example_token_game
#print axioms C12_counterexample_parent_never_resumes
#print axioms C12_counterexample_reentry
#print axioms current_subReturns_ok
#print axioms current_facts_known
#print axioms current_relay_first
#print axioms current_sub_completion
#print axioms current_sub_monitor_first
