import Bpmn.Props.C12
import Bpmn.Props.EngineCurrent
import Bpmn.Props.C12Current
import Bpmn.Props.C12Steps
import Bpmn.Props.C12Blind
import Bpmn.Props.C12Turns
open Bpmn.Props.C12 Bpmn.Props.EngineCurrent
#print axioms C12_partial
#print axioms settle_holds_parent
#print axioms sub_example_token_game
#print axioms C12_counterexample_parent_never_resumes
#print axioms C12_counterexample_reentry
#print axioms current_subReturns_ok
#print axioms current_facts_known
#print axioms current_relay_first
#print axioms current_sub_completion
#print axioms current_sub_monitor_first
#print axioms Bpmn.Props.C12Steps.enter_sub_tokens
#print axioms Bpmn.Props.C12Steps.enter_sub_holds_parent
#print axioms Bpmn.Props.C12Steps.enter_sub_twice_waits
#print axioms Bpmn.Props.C12Steps.return_needs_empty_scope
#print axioms Bpmn.Props.C12Steps.return_sub_once
#print axioms Bpmn.Props.C12Steps.sub_programs_are_token_game
#print axioms Bpmn.Props.C12Steps.return_when_scope_empty
#print axioms Bpmn.Props.C12Nest.descend
#print axioms Bpmn.Props.C12Nest.ascend
#print axioms Bpmn.Props.C12Nest.inner_step
#print axioms Bpmn.Props.C12Nest.inner_chain
#print axioms Bpmn.Props.C12Nest.nest_run
#print axioms Bpmn.Props.C12Nest.nest_shape
#print axioms Bpmn.Props.C12Nest.nestProc_run
#print axioms Bpmn.Props.C12Nest.nest_as_inline
#print axioms Bpmn.Props.C12Steps.nest_run_current
#print axioms Bpmn.Props.C12Steps.nestProc_run_current
#print axioms Bpmn.Props.C12Blind.arrive_reparent
#print axioms Bpmn.Props.C12Blind.selectFlows_reparent
#print axioms Bpmn.Props.C12Blind.answerPrep_reparent
#print axioms Bpmn.Props.C12Loop.loop_step
#print axioms Bpmn.Props.C12Loop.loop_rounds
#print axioms Bpmn.Props.C12Loop.loop_run
#print axioms Bpmn.Props.C12Steps.loop_run_current
#print axioms Bpmn.Props.C12Turns.arrive_subs
#print axioms Bpmn.Props.C12Turns.arrive_oneEach
#print axioms Bpmn.Props.C12Turns.settle_subs
#print axioms Bpmn.Props.C12Turns.runWork_oneEach
#print axioms Bpmn.Props.C12Turns.answer_oneEach
#print axioms Bpmn.Props.C12Turns.runOps_oneEach
#print axioms Bpmn.Model.Engine.nextTurn_idle
#print axioms Bpmn.Model.Engine.nextTurn_fst
#print axioms Bpmn.Props.C12Turns.return_frees_node
#print axioms Bpmn.Props.C12Turns.nextTurn_mem
#print axioms Bpmn.Props.C12Turns.nextTurn_node
#print axioms Bpmn.Props.C12Turns.nextTurn_perm
#print axioms Bpmn.Props.C12Turns.nextTurn_parked_nodup
#print axioms Bpmn.Props.C12Turns.nextTurn_one
#print axioms Bpmn.Props.C12Turns.nextTurn_parked_length
#print axioms Bpmn.Props.C12Turns.nextTurn_others
#print axioms Bpmn.Props.C12Turns.nextTurn_first
#print axioms Bpmn.Props.C12Turns.find_other
#print axioms Bpmn.Props.C12Turns.nextTurn_comm
#print axioms Bpmn.Props.C12Turns.nextTurn_twice
#print axioms Bpmn.Props.C12Turns.filter_drop_head
#print axioms Bpmn.Props.C12Turns.turns_fifo
#print axioms Bpmn.Props.C12.current_activations_take_turns
#print axioms Bpmn.Props.C12Turns.answer_payload_irrelevant
#print axioms Bpmn.Props.C12Turns.turnsRun_any_payload
#print axioms Bpmn.Props.C12Turns.handover
