import Bpmn.Props.C13
import Bpmn.Props.C13Current
open Bpmn.Props.C13
#print axioms C13_holds
#print axioms silent_after
#print axioms current_mock_channel_caps
#print axioms current_timer_channel_unbuffered
#print axioms current_loop_select_shape
#print axioms current_loop_body_shape
