import Bpmn.Props.C13
import Bpmn.Props.C13Current
open Bpmn.Props.C13
#print axioms C13_holds
#print axioms never_early
#print axioms never_early_one_shot
#print axioms wake_le_clock
#print axioms one_shot_once
#print axioms one_shot_fires
#print axioms cycle_count_le
#print axioms cycle_count_exact
#print axioms cycle_progress
#print axioms cycle_starts
#print axioms cycle_spacing
#print axioms cycle_end
#print axioms silent_after
#print axioms cancel_observed
#print axioms silent_after_cancel
#print axioms cancel_race_may_fire_once
#print axioms current_mock_channel_caps
#print axioms current_timer_channel_unbuffered
#print axioms current_loop_select_shape
#print axioms current_loop_body_shape
