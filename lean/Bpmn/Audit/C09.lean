import Bpmn.Props.C09
import Bpmn.Props.C09Current
open Bpmn.Props.C09
#print axioms C09_holds
#print axioms tracer_segment
#print axioms tracer_segment_bounds
#print axioms tracer_same_order
#print axioms tracer_complete_when_idle
#print axioms tracer_removal_keeps_others
#print axioms tracer_sender_order
#print axioms tracer_unsub_progress
#print axioms tracer_nodrain_deadlock
#print axioms progress_dichotomy
#print axioms unsubscribe_unsubscribed_spins
#print axioms relay_lossless_if_subscribed_first
#print axioms relay_late_subscription_loses_prefix
#print axioms relay_dichotomy
#print axioms flows_causal
#print axioms current_channels_unbuffered
#print axioms current_ack_channels
#print axioms current_broadcast_shape
#print axioms current_default_cap_known
#print axioms current_progress
#print axioms current_relay
#print axioms current_positive_sides
#print axioms two_relays_each_hold_everything
#print axioms two_relays_forward_twice
