import Bpmn.Props.C09
import Bpmn.Props.C09Current
open Bpmn.Props.C09
#print axioms run_nil
#print axioms current_channels_unbuffered
