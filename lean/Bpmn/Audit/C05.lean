import Bpmn.Props.C05
import Bpmn.Props.EngineCurrent
open Bpmn.Props.C05 Bpmn.Props.EngineCurrent
#print axioms C05_partial
#print axioms igDecide_true
#print axioms igDecide_default
#print axioms igDecide_error
#print axioms igDecide_sound
#print axioms ij_no_early_release
#print axioms ij_window
#print axioms C05_counterexample_nested_fork
#print axioms current_facts_known
