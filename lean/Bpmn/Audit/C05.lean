import Bpmn.Props.C05
import Bpmn.Props.EngineSteps
import Bpmn.Props.EngineCurrent
import Bpmn.Props.C05Tracker
open Bpmn.Props.C05 Bpmn.Props.EngineCurrent
#print axioms C05_partial
#print axioms igDecide_true
#print axioms igDecide_default
#print axioms igDecide_error
#print axioms igDecide_sound
#print axioms ij_no_early_release
#print axioms ij_window
#print axioms C05_counterexample_nested_fork
#print axioms current_facts_known
#print axioms join_waits
#print axioms join_fires_once
#print axioms cohort_after_fork
#print axioms fresh_view_join_correct
#print axioms fresh_view_no_early_release
#print axioms stale_token_in_cohort
#print axioms stale_token_blocks_join
#print axioms term_cleans
#print axioms C05_counterexample_silent_exit
#print axioms first_activation_view
#print axioms C05_counterexample_stale_view
#print axioms Bpmn.Props.EngineSteps.incl_step_holds
#print axioms evalFlows_keys
#print axioms evalFlows_length
#print axioms evalFlows_true_kept
