import Bpmn.Props.C08
import Bpmn.Props.C08Current
open Bpmn.Props.C08
#print axioms C08_partial
#print axioms C08_general
#print axioms C08_cex
#print axioms C08_dichotomy
#print axioms C08_not_holds_blocking
#print axioms tt_first_answer_wins
#print axioms tt_reader_gets_logged
#print axioms tt_late_do_no_effect
#print axioms tt_done_stable
#print axioms tt_do_returns
#print axioms C08_counterexample_third_do_blocks
#print axioms C08_counterexample_third_do_blocks_current
#print axioms retry_bound
#print axioms applyDeclared_spec
#print axioms applyOutputs_spec
#print axioms applyDeclared_declared
#print axioms current_verdict
#print axioms current_do_returns
#print axioms current_partial
#print axioms current_done_channel_found
#print axioms current_retry_sentinel
#print axioms current_retry_strict
#print axioms current_error_trace_first
#print axioms current_limit_from_handler
