import Bpmn.Props.C17
import Bpmn.Props.C17Current
open Bpmn.Props.C17
#print axioms lockset_sound
#print axioms policy_sound
#print axioms table_sound
#print axioms C17_holds
#print axioms exTrace_racefree
#print axioms exRacy_races
#print axioms tables_found
#print axioms lockTable_ok
#print axioms current_no_regression
#print axioms ownership_ok
#print axioms current_race_free
#print axioms current_nonempty
