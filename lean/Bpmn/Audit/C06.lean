import Bpmn.Props.C06
import Bpmn.Props.C06Current
open Bpmn.Props.C06
#print axioms ebg_one_winner
#print axioms final_absorbing
#print axioms ebg_winner_never_blocks
#print axioms ebg_no_block
#print axioms ebg_bounded
#print axioms bounded_from_init
#print axioms ebg_late_events_inert
#print axioms ebg_late_events_inert_partial
#print axioms C06_counterexample_deadlock
#print axioms C06_counterexample_late_select
#print axioms C06_counterexample_late_event_blocks
#print axioms late_delivery_blocked0
#print axioms late_delivery_blocked1
#print axioms C06_general
#print axioms C06_cex
#print axioms C06_holds_partial
#print axioms C06_today_fails
#print axioms current_verdict
#print axioms current_one_winner
#print axioms current_no_block
#print axioms current_late_inert
#print axioms current_uses_cas
#print axioms current_winner_closes
#print axioms current_loser_completes
