import Bpmn.Props.C11MatchCurrent
import Bpmn.Props.C14
import Bpmn.Props.C14Current
open Bpmn.Props.C14
#print axioms C14_holds
#print axioms multiple_fires_on_any
#print axioms pm_bound
#print axioms pm_exact
#print axioms nonmatching_inert
#print axioms current_sentinel
#print axioms Bpmn.Props.C11MatchCurrent.translated
#print axioms Bpmn.Props.C11MatchCurrent.message_match_is_source
#print axioms Bpmn.Props.C11MatchCurrent.signal_match_is_source
