import Bpmn.Props.C04
import Bpmn.Props.EngineSteps
import Bpmn.Props.C04Current
open Bpmn.Props.C04
#print axioms C04_holds
#print axioms xgDecide_first_true
#print axioms xgDecide_default
#print axioms xgDecide_error
#print axioms xgDecide_sound
#print axioms xg_step_independent
#print axioms xg_single_na_na_report
#print axioms xg_single_na_report_na
#print axioms Bpmn.Props.C04Current.xpath_fact_known
#print axioms Bpmn.Props.EngineSteps.xor_step_take
#print axioms Bpmn.Props.EngineSteps.xor_step_error
#print axioms Bpmn.Props.EngineSteps.xor_step_at_most_one
#print axioms Bpmn.Props.EngineSteps.xor_routes_first_true
#print axioms Bpmn.Props.EngineSteps.xor_routes_default
