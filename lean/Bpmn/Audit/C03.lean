import Bpmn.Props.C03
import Bpmn.Props.C03Current
import Bpmn.Props.EngineSteps
open Bpmn.Props.C03
#print axioms C03_holds
#print axioms distribute_partition
#print axioms distribute_completions
#print axioms pg_holds_until_full
#print axioms pg_release
#print axioms pg_run
#print axioms Bpmn.Props.EngineSteps.par_step_holds
#print axioms Bpmn.Props.EngineSteps.par_step_releases_all
#print axioms Bpmn.Props.EngineSteps.par_join_waits
#print axioms Bpmn.Props.EngineSteps.par_join_fires
#print axioms Bpmn.Props.C03Current.translated
#print axioms Bpmn.Props.C03Current.reply_is_source
#print axioms Bpmn.Props.C03Current.all_handed_flows_unconditional
