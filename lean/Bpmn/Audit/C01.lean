import Bpmn.Props.EngineSteps
import Bpmn.Props.C01
import Bpmn.Props.EngineCurrent
import Bpmn.Props.C01Conformance
import Bpmn.Props.C01Chain
import Bpmn.Props.C01FragmentCurrent
open Bpmn.Props.C01 Bpmn.Props.EngineCurrent Bpmn.Props.C01Conformance
#print axioms selectFlows_spec
#print axioms forkToks_spec
#print axioms C01_counterexample_first_flow_decides
#print axioms arrive_task
#print axioms arrive_end
#print axioms applyDeclared_undeclared
#print axioms C01_conformance_of_no_deviation
#print axioms current_firstFlow_ok
#print axioms current_subReturns_ok
#print axioms current_facts_known
#print axioms conformance_start
#print axioms conformance_answer
#print axioms conformance_runOps
#print axioms conformance_runOps_ideal
#print axioms C01Conformance_holds
#print axioms joinOf_admissible
#print axioms C01Conformance_counterexample
#print axioms mixed_run_is_neither_ideal_variant
#print axioms mixed_run_is_a_token_game_run
#print axioms sticky_start_is_logged
#print axioms Bpmn.Props.C01Chain.chain_steps
#print axioms Bpmn.Props.C01Chain.chain_start
#print axioms Bpmn.Props.C01Chain.chain_conformance
#print axioms Bpmn.Props.C01Chain.chain_matches_token_game
#print axioms Bpmn.Props.C01Fragment.fragment_never_deviates
#print axioms Bpmn.Props.C01Fragment.fragment_conformance
#print axioms Bpmn.Props.C01Fragment.noIncl_never_deviates
#print axioms Bpmn.Props.C01Fragment.noIncl_conformance
#print axioms Bpmn.Props.C01Fragment.noIncl_hypothesis_needed
#print axioms Bpmn.Props.C01FragmentCurrent.current_repaired
#print axioms Bpmn.Props.C01FragmentCurrent.current_noIncl_conformance
#print axioms Bpmn.Props.C01FragmentCurrent.current_noIncl_never_deviates
#print axioms Bpmn.Props.C01Fragment.throwFuse_hypothesis_needed
#print axioms Bpmn.Props.EngineCurrent.current_throwPasses_ok
#print axioms Bpmn.Props.EngineSteps.throw_step_passes
#print axioms Bpmn.Props.EngineSteps.throw_step_fused
