import Bpmn.Props.C01
import Bpmn.Props.EngineCurrent
open Bpmn.Props.C01 Bpmn.Props.EngineCurrent
#print axioms selectFlows_spec
#print axioms forkToks_spec
#print axioms C01_counterexample_first_flow_decides
#print axioms arrive_task
#print axioms arrive_end
#print axioms applyDeclared_undeclared
#print axioms C01_conformance_of_no_deviation
#print axioms current_firstFlow_ok
#print axioms current_subReturns_ok
#print axioms current_facts_known
