import Bpmn.Props.C11MatchCurrent
import Bpmn.Props.C11
import Bpmn.Props.C11Current
import Bpmn.Props.C11Match
open Bpmn.Props.C11
#print axioms deliver_once
#print axioms deliver_is_forward
#print axioms deliver_stops
#print axioms stale_inert
#print axioms stale_inert_sys
#print axioms tokens_conserved
#print axioms tokens_conserved_sys
#print axioms released_once_sys
#print axioms released_once
#print axioms deliver_bounded
#print axioms C11_counterexample_unreached_inbox
#print axioms C11_cex
#print axioms C11_general
#print axioms C11_holds_partial
#print axioms current_verdict
#print axioms current_kind
#print axioms current_partial
#print axioms matches_spec
#print axioms nothing_matches_end_none_compensation
#print axioms message_matches_iff
#print axioms signal_matches_iff
#print axioms instance_events_match_own_instance
#print axioms matches_depends_on_definition
#print axioms Bpmn.Props.C11MatchCurrent.translated
#print axioms Bpmn.Props.C11MatchCurrent.message_match_is_source
#print axioms Bpmn.Props.C11MatchCurrent.signal_match_is_source
