import Bpmn.Props.C19
import Bpmn.Props.C19Current
open Bpmn.Props.C19
#print axioms C19_holds
#print axioms waypoints_on_borders
#print axioms current_sizes
