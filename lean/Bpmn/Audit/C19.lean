import Bpmn.Props.C19
import Bpmn.Props.C19Current
import Bpmn.Props.C01Chain
open Bpmn.Props.C19
#print axioms C19_holds_partial
#print axioms C19_general
#print axioms C19_counterexample_activity_not_stored
#print axioms process_wellformed
#print axioms sequential_ids_unique
#print axioms activity_not_stored_dangling
#print axioms duplicate_generated_id_witness
#print axioms waypoints_on_borders
#print axioms layoutProcess_ok
#print axioms layout_ok
#print axioms layout_no_overlap
#print axioms layoutOk_of_wellformed
#print axioms current_sizes
#print axioms current_defaults_cover_sizes
#print axioms current_default_layout_no_overlap
#print axioms current_stored_dichotomy
#print axioms current_C19
#print axioms current_id_source_found
#print axioms Bpmn.Props.C01Chain.chain_steps
#print axioms Bpmn.Props.C01Chain.chain_start
#print axioms Bpmn.Props.C01Chain.chain_conformance
#print axioms Bpmn.Props.C01Chain.chain_matches_token_game
