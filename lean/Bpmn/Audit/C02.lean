import Bpmn.Props.C02
import Bpmn.Props.C02Current
open Bpmn.Props.C02
#print axioms cease_sound
#print axioms cease_at_most_monitors
#print axioms wait_sound
#print axioms cease_last
#print axioms complete_live
#print axioms C02_counterexample_missed_start
#print axioms C02_counterexample_two_starts
#print axioms C02_counterexample_expired_wait
#print axioms C02_counterexample_late_boundary_trace
#print axioms C02_safe
#print axioms C02_for_partial
#print axioms C02_holds_partial
#print axioms C02_single_start_partial
#print axioms C02_single_start_cex
#print axioms C02_cex
#print axioms C02_not_holds_today
#print axioms current_subscribe_buffer
#print axioms current_safe
#print axioms current_verdict
#print axioms current_single_start
#print axioms current_missed_start
#print axioms current_two_starts
#print axioms current_expired_wait
#print axioms current_late_boundary_trace
#print axioms current_liveness
