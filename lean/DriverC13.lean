import Bpmn.Driver.Main
import Bpmn.Driver.C13
open Bpmn.Driver

def main : IO UInt32 :=
  runDriver (fun family params lines =>
    match family with
    | "c13" => C13.check params lines
    | "c13e" => C13.checkEngine params lines
    | "c13e2" => C13.checkEngine2 params lines
    | "c13many" => C13.checkMany params lines
    | "c13two" => C13.checkTwo params lines
    | _ => { bad := [s!"unknown family {family}"] })
