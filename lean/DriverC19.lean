import Bpmn.Driver.Main
import Bpmn.Driver.C19
open Bpmn.Driver

def main : IO UInt32 :=
  runDriver (fun family params lines =>
    match family with
    | "c19" => C19.check params lines
    | _ => { bad := [s!"unknown family {family}"] })
