import Bpmn.Driver.Main
import Bpmn.Driver.C03
open Bpmn.Driver

def main : IO UInt32 :=
  runDriver (fun family params lines =>
    match family with
    | "c03fn" => C03.checkFn params lines
    | "c03" => C03.checkEng params lines
    | "c03burst" => C03.checkEng params lines
    | "c03two" => C03.checkEng params lines
    | "c03ctx" => C03.checkEng params lines
    | "c01patient" => C03.checkEng params lines
    | "c03bnd" => C03.checkBnd params lines
    | _ => { bad := [s!"unknown family {family}"] })
