import Bpmn.Driver.Main
import Bpmn.Driver.C01
open Bpmn.Driver

def main : IO UInt32 :=
  runDriver (fun family params lines =>
    match family with
    | "c01" => C01.check params lines
    | "c01d" => C01.check params lines
    | "c01re" => C01.check params lines
    | "c01twin" => C01.checkTwin params lines
    | "c01patient" => C01.check params lines
    | "c01twins" => C01.check params lines
    | _ => { bad := [s!"unknown family {family}"] })
