import Bpmn.Driver.Main
import Bpmn.Driver.C16
import Bpmn.Driver.C16Decl
open Bpmn.Driver

def main : IO UInt32 :=
  runDriver (fun family params lines =>
    match family with
    | "c16" => C16.check params lines
    | "c16decl" => C16Decl.check params lines
    | _ => { bad := [s!"unknown family {family}"] })
