import Bpmn.Driver.Main
import Bpmn.Driver.C07
open Bpmn.Driver

def main : IO UInt32 :=
  runDriver (fun family params lines =>
    match family with
    | "c07" => C07.check params lines
    -- the timer goroutines themselves (pkg/timer on the mock clock, family c13): after the cancellation — also one that
    -- races a clock jump — every one of them is gone
    | "c13" => C07.checkTimerGoroutines params lines
    | _ => { bad := [s!"unknown family {family}"] })
