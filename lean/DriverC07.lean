import Bpmn.Driver.Main
import Bpmn.Driver.C07
open Bpmn.Driver

def main : IO UInt32 :=
  runDriver (fun family params lines =>
    match family with
    | "c07" => C07.check params lines
    | _ => { bad := [s!"unknown family {family}"] })
